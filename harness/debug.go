package main

import (
	"encoding/json"
	"fmt"
	"io"
	"os"
	"path/filepath"
	"sort"

	"github.com/roddhjav/apparmor.d/pkg/aa"
	"github.com/roddhjav/apparmor.d/pkg/logs"
)

func debugMain(args []string) int {
	switch args[0] {
	case "scan":
		b, err := os.ReadFile(args[1])
		if err != nil {
			fmt.Println(err)
			return 1
		}
		for _, it := range Scan(string(b)) {
			j, _ := json.Marshal(it)
			fmt.Println(string(j))
		}
	case "logs":
		// dbg logs  < lines on stdin: the maps logs.New returns
		for _, m := range logs.New(os.Stdin, "") {
			j, _ := json.Marshal(m)
			fmt.Println(string(j))
		}
	case "rt":
		// dbg rt < rule text on stdin: parse, show the structs, print again
		b, _ := io.ReadAll(os.Stdin)
		func() {
			defer func() {
				if p := recover(); p != nil {
					fmt.Println("PANIC", p)
				}
			}()
			paras, _, err := aa.ParseRules(string(b))
			if err != nil {
				fmt.Println("ERR", err)
				return
			}
			for _, rs := range paras {
				for _, r := range rs {
					j, _ := json.Marshal(r)
					fmt.Printf("%T %s\n   => %s\n", r, j, r.String())
				}
			}
		}()
	case "file":
		// dbg file < a profile file on stdin: parse, show the preamble and the header, print again
		b, _ := io.ReadAll(os.Stdin)
		func() {
			defer func() {
				if p := recover(); p != nil {
					fmt.Println("PANIC", p)
				}
			}()
			f := &aa.AppArmorProfileFile{}
			n, err := f.Parse(string(b))
			if err != nil {
				fmt.Println("ERR", err)
				return
			}
			fmt.Println("lines read:", n)
			for _, r := range f.Preamble {
				j, _ := json.Marshal(r)
				fmt.Printf("PRE %T %s\n", r, j)
			}
			for _, p := range f.Profiles {
				j, _ := json.Marshal(p.Header)
				fmt.Printf("HDR %s\n", j)
			}
			fmt.Println("----\n" + f.String())
		}()
	case "corpus":
		// dbg corpus <apparmor.d dir>: every shipped profile through ParseRules
		root := args[1]
		nf, nerr, npanic, npara, nrules := 0, 0, 0, 0, 0
		for _, f := range listFiles(root) {
			if !isProfilePath(filepath.Base(f)) || !(len(f) > 7 && (f[:7] == "groups/" || f[:9] == "profiles-")) {
				continue
			}
			b, _ := os.ReadFile(filepath.Join(root, f))
			nf++
			func() {
				defer func() {
					if p := recover(); p != nil {
						npanic++
						fmt.Println("PANIC", f, p)
					}
				}()
				paras, _, err := aa.ParseRules(string(b))
				if err != nil {
					nerr++
					if nerr < 15 {
						fmt.Println("ERR", f, err)
					}
					return
				}
				for _, rs := range paras {
					npara++
					nrules += len(rs)
				}
			}()
		}
		fmt.Println("files", nf, "errors", nerr, "panics", npanic, "paragraphs", npara, "rules", nrules)
	case "scanstats":
		root := args[1]
		cnt := map[string]int{}
		other := []string{}
		for _, f := range listFiles(root) {
			b, _ := os.ReadFile(filepath.Join(root, f))
			for _, it := range Scan(string(b)) {
				cnt[it.T]++
				if it.T == "other" && len(other) < 40 {
					other = append(other, f+": "+it.Raw)
				}
			}
		}
		ks := []string{}
		for k := range cnt {
			ks = append(ks, k)
		}
		sort.Strings(ks)
		for _, k := range ks {
			fmt.Println(k, cnt[k])
		}
		for _, o := range other {
			fmt.Println("OTHER", o)
		}
	}
	return 0
}
