package main

// C13: variable resolution is plain substitution and keeps the rest of the preamble
// (Resolve.tla / ResolveTrace.tla). MC_Resolve enumerates preambles; each is rendered
// as a real profile file and run through the REAL (*AppArmorProfileFile).Parse + Resolve.

import (
	"encoding/json"
	"fmt"
	"math/rand"
	"path/filepath"
	"regexp"
	"sort"
	"strconv"
	"strings"
	"time"

	"github.com/roddhjav/apparmor.d/pkg/aa"
)

func init() { checks["C13"] = checkC13 }

type rPart struct {
	T string `json:"t"`
	S string `json:"s"`
}
type rItem struct {
	K      string    `json:"k"`
	ID     int       `json:"id"`
	Name   string    `json:"name"`
	Define bool      `json:"define"`
	Values [][]rPart `json:"values"`
}

func renderValue(v []rPart) string {
	var b strings.Builder
	for _, p := range v {
		if p.T == "ref" {
			b.WriteString("@{" + p.S + "}")
		} else {
			b.WriteString(p.S)
		}
	}
	return b.String()
}

func renderPreamble(pre []rItem, withHeader bool) string {
	var b strings.Builder
	for _, it := range pre {
		switch it.K {
		case "cmt":
			fmt.Fprintf(&b, "# c%d\n", it.ID)
		case "inc":
			fmt.Fprintf(&b, "include <tunables/v%d>\n", it.ID)
		case "abi":
			fmt.Fprintf(&b, "abi <abi/v%d>,\n", it.ID)
		case "alias":
			fmt.Fprintf(&b, "alias /old%d -> /new%d,\n", it.ID, it.ID)
		case "var":
			vals := []string{}
			for _, v := range it.Values {
				vals = append(vals, renderValue(v))
			}
			op := "="
			if !it.Define {
				op = "+="
			}
			fmt.Fprintf(&b, "@{%s} %s %s\n", it.Name, op, strings.Join(vals, " "))
		}
	}
	if withHeader {
		b.WriteString("profile vgen @{exec_path} {\n  include <abstractions/base>\n}\n")
	}
	return b.String()
}

// renderPreambleAtts: the same with the given attachments in the header.
func renderPreambleAtts(pre []rItem, atts [][]rPart) string {
	words := []string{}
	for _, a := range atts {
		words = append(words, renderValue(a))
	}
	return renderPreamble(pre, false) + "profile vgen " + strings.Join(words, " ") + " {\n  include <abstractions/base>\n}\n"
}

var (
	reCmtID = regexp.MustCompile(`^ ?c(\d+)$`)
	reIncID = regexp.MustCompile(`^tunables/v(\d+)$`)
	reAbiID = regexp.MustCompile(`^abi/v(\d+)$`)
	reAliID = regexp.MustCompile(`^/old(\d+)$`)
)

type resolveOut struct {
	Outcome string
	RVars   []map[string]any
	RAtts   []string
	RKept   []int
	RSet    []int
	Err     string
}

// realResolve runs the real parser and resolver on text.
func realResolve(text string, withDefaults bool) (out resolveOut) {
	out.RVars, out.RAtts, out.RKept, out.RSet = []map[string]any{}, []string{}, []int{}, []int{}
	defer func() {
		if p := recover(); p != nil {
			out.Outcome = "panic"
			out.Err = fmt.Sprint(p)
		}
	}()
	var f *aa.AppArmorProfileFile
	nDefaults := 0
	if withDefaults {
		f = aa.DefaultTunables()
		nDefaults = len(f.Preamble)
	} else {
		f = &aa.AppArmorProfileFile{}
	}
	if _, err := f.Parse(text); err != nil {
		out.Outcome = "error"
		out.Err = "parse: " + err.Error()
		return
	}
	if err := f.Resolve(); err != nil {
		out.Outcome = "error"
		out.Err = err.Error()
		return
	}
	out.Outcome = "ok"
	for i, r := range f.Preamble {
		switch x := r.(type) {
		case *aa.Variable:
			if i < nDefaults && withDefaults && isDefaultName(x.Name) {
				continue
			}
			out.RVars = append(out.RVars, map[string]any{"name": x.Name, "vals": append([]string{}, x.Values...)})
		case *aa.Comment:
			if m := reCmtID.FindStringSubmatch(x.Comment); m != nil {
				n, _ := strconv.Atoi(m[1])
				out.RKept = append(out.RKept, n)
			} else {
				out.RKept = append(out.RKept, -1)
			}
		case *aa.Include:
			if m := reIncID.FindStringSubmatch(x.Path); m != nil {
				n, _ := strconv.Atoi(m[1])
				out.RKept = append(out.RKept, n)
			} else {
				out.RKept = append(out.RKept, -1)
			}
		case *aa.Abi:
			if m := reAbiID.FindStringSubmatch(x.Path); m != nil {
				n, _ := strconv.Atoi(m[1])
				out.RSet = append(out.RSet, n)
			}
		case *aa.Alias:
			if m := reAliID.FindStringSubmatch(x.Path); m != nil {
				n, _ := strconv.Atoi(m[1])
				out.RSet = append(out.RSet, n)
			}
		}
	}
	if len(f.Profiles) > 0 {
		out.RAtts = append(out.RAtts, f.Profiles[0].Attachments...)
	}
	return
}

var defaultNames = map[string]bool{}

func isDefaultName(n string) bool {
	if len(defaultNames) == 0 {
		for _, v := range aa.DefaultTunables().Preamble.GetVariables() {
			defaultNames[v.Name] = true
		}
	}
	return defaultNames[n]
}

func checkC13(e *Env, r *Report) {
	mlen := "4"
	if e.Tier == "thorough" {
		mlen = "5"
	}
	res, err := e.RunTLC(TLCOpts{Module: "MC_Resolve", Workers: 12, Timeout: 30 * time.Minute, Env: map[string]string{"VERIF_RESOLVE_LEN": mlen}})
	if err != nil {
		r.Fatal = err.Error()
		return
	}
	r.AddTLC(res)
	if !res.Healthy() {
		r.Fatal = "MC_Resolve did not complete: " + res.Err + tail(res.Out, 1200)
		return
	}
	r.Coverage["model_leads"] = len(res.PrintsWithPrefix("LEAD"))
	type beh struct {
		Pre    []rItem `json:"pre"`
		Judged bool    `json:"judged"`
	}
	pres := []beh{}
	for _, p := range res.PrintsWithPrefix("BEH") {
		var b beh
		if err := json.Unmarshal([]byte(p), &b); err != nil {
			r.Fatal = "bad BEH: " + err.Error()
			return
		}
		pres = append(pres, b)
	}
	if len(pres) == 0 {
		r.Fatal = "MC_Resolve emitted nothing"
		return
	}
	r.Coverage["model_preambles"] = len(pres)
	// quick tier: all preambles up to length 3 and a seeded sample of the longer ones
	rng := rand.New(rand.NewSource(e.Seed))
	recs := []any{}
	seen := map[string]bool{}
	nRun, nSkipped := 0, 0
	for _, b := range pres {
		if !b.Judged {
			nSkipped++
			continue // appends before the definition / reference cycles: explored by the model, not judged on the code
		}
		if e.Tier != "thorough" && len(b.Pre) > 3 && rng.Intn(4) != 0 {
			continue
		}
		// the attachment is @{exec_path}; every third preamble also gets one with a literal prefix and a
		// variable in the middle (/pre/@{a}/x), which must be resolved (and its errors reported) all the same
		atts := [][]rPart{{{T: "ref", S: "exec_path"}}}
		text := renderPreamble(b.Pre, true)
		if nRun%3 == 2 {
			atts = [][]rPart{{{T: "ref", S: "exec_path"}}, {{T: "lit", S: "/pre"}, {T: "ref", S: "a"}, {T: "lit", S: "/x"}}}
			text = renderPreambleAtts(b.Pre, atts)
		}
		for _, withDef := range []bool{false, true} {
			o := realResolve(text, withDef)
			nRun++
			rec := map[string]any{"ev": "resolve", "pre": b.Pre, "atts": atts, "judged": true, "outcome": o.Outcome, "rvars": o.RVars, "ratts": o.RAtts, "rkept": o.RKept, "rset": o.RSet}
			kb, _ := json.Marshal(rec)
			k := sha(kb)
			if seen[k] {
				continue
			}
			seen[k] = true
			rec["id"] = fmt.Sprintf("%s|defaults=%v", compactPre(b.Pre), withDef)
			rec["err"] = o.Err
			recs = append(recs, rec)
		}
	}
	// history scenarios: B, then files that append to built-in tunables / redefine locals, then B again
	probes := []string{
		"@{exec_path} = @{lib}/probe @{bin}/probe2\nprofile probe @{exec_path} {\n}\n",
		"@{name} = beta\n@{lib_dirs} = /opt/@{name}\n@{exec_path} = @{lib_dirs}/@{name}\nprofile probe @{exec_path} {\n}\n",
		"@{exec_path} = @{HOME}/x @{run}/y/@{uid}\nprofile probe @{exec_path} {\n}\n",
	}
	disturb := []string{
		"@{lib} += /opt/vendor/lib\n@{bin} += /opt/vendor/bin\n@{HOME} += /root\n@{run} += /tmp/run\n@{exec_path} = @{lib}/d\nprofile d @{exec_path} {\n}\n",
		"@{name} = alpha\n@{lib_dirs} = /opt/@{name}\n@{exec_path} = @{lib_dirs}/@{name}\nprofile d2 @{exec_path} {\n}\n",
		"@{uid} += 0\n@{exec_path} = /x\n@{exec_path} += /y\nprofile d3 @{exec_path} {\n}\n",
	}
	for pi, pt := range probes {
		before := realResolve(pt, true)
		for _, dt := range disturb {
			_ = realResolve(dt, true)
		}
		after := realResolve(pt, true)
		bb, _ := json.Marshal([]any{before.Outcome, before.RVars, before.RAtts})
		ab, _ := json.Marshal([]any{after.Outcome, after.RVars, after.RAtts})
		recs = append(recs, map[string]any{"ev": "hist", "id": fmt.Sprintf("history|probe%d", pi), "a": string(bb), "b": string(ab)})
		nRun += 2 + len(disturb)
	}
	// the built-in table: every variable of DefaultTunables takes an append like a variable of the file does, and
	// may not be defined a second time (variables other built-ins refer to are left out: their expansions multiply)
	{
		defs := aa.DefaultTunables().Preamble.GetVariables()
		referenced := map[string]bool{}
		for _, v := range defs {
			for _, val := range v.Values {
				for _, w := range defs {
					if strings.Contains(val, "@{"+w.Name+"}") {
						referenced[w.Name] = true
					}
				}
			}
		}
		set := func(xs []string) []string {
			m := map[string]bool{}
			for _, x := range xs {
				m[x] = true
			}
			out := []string{}
			for x := range m {
				out = append(out, x)
			}
			sort.Strings(out)
			return out
		}
		nDef := 0
		for _, v := range defs {
			if referenced[v.Name] || v.Name == "exec_path" {
				continue
			}
			use := "@{exec_path} = @{" + v.Name + "}/x\nprofile p @{exec_path} {\n}\n"
			base := realResolve(use, true)
			if base.Outcome != "ok" {
				continue
			}
			app := realResolve("@{"+v.Name+"} += /seeded\n"+use, true)
			got := set(app.RAtts)
			if app.Outcome != "ok" {
				got = []string{"<" + app.Outcome + ": " + app.Err + ">"}
			}
			recs = append(recs, map[string]any{"ev": "expect", "id": "defaults|append|" + v.Name, "what": "a value appended to a built-in variable does not reach the attachment that uses the variable (or something else changes)",
				"want": set(append(append([]string{}, base.RAtts...), "/seeded/x")), "got": got})
			red := realResolve("@{"+v.Name+"} = /seeded\n"+use, true)
			recs = append(recs, map[string]any{"ev": "expect", "id": "defaults|redefine|" + v.Name, "what": "a second definition of a built-in variable is not reported as an error",
				"want": []string{"error"}, "got": []string{red.Outcome}})
			nRun += 3
			nDef++
		}
		r.Coverage["builtin_variables_appended_and_redefined"] = nDef
	}
	// several profiles in one file (built through the library): each one's attachments are resolved as if it were alone
	{
		mkFile := func() *aa.AppArmorProfileFile {
			f := &aa.AppArmorProfileFile{}
			_, _ = f.Parse("@{name} = gamma\n@{bin} = /{,usr/}bin\n@{exec_path} = @{bin}/main-@{name}\nprofile main @{exec_path} {\n}\n")
			return f
		}
		alone := func(att []string) []string {
			f := mkFile()
			f.Profiles = []*aa.Profile{{Header: aa.Header{Name: "solo", Attachments: append([]string{}, att...)}}}
			if err := f.Resolve(); err != nil {
				return []string{"<error: " + err.Error() + ">"}
			}
			return append([]string{}, f.Profiles[0].Attachments...)
		}
		shapes := [][][]string{
			{nil, {"@{exec_path}"}, {"@{bin}/other-@{name}"}},
			{{"@{exec_path}"}, nil, {"@{bin}/other-@{name}"}},
			{{}, {"@{bin}/a"}, {}, {"@{exec_path}", "@{bin}/b-@{name}"}},
			{{"/literal"}, {"@{exec_path}"}},
		}
		for si, sh := range shapes {
			f := mkFile()
			f.Profiles = nil
			for pi, att := range sh {
				var a []string
				if att != nil {
					a = append([]string{}, att...)
				}
				f.Profiles = append(f.Profiles, &aa.Profile{Header: aa.Header{Name: fmt.Sprintf("p%d", pi), Attachments: a}})
			}
			var rerr error
			func() {
				defer func() {
					if p := recover(); p != nil {
						rerr = fmt.Errorf("panic: %v", p)
					}
				}()
				rerr = f.Resolve()
			}()
			for pi, att := range sh {
				want := alone(att)
				got := []string{}
				if rerr != nil {
					got = []string{"<error: " + rerr.Error() + ">"}
				} else {
					got = append(got, f.Profiles[pi].Attachments...)
				}
				recs = append(recs, map[string]any{"ev": "expect", "id": fmt.Sprintf("multiprofile|shape%d|p%d", si, pi), "what": "the attachments of a profile are resolved differently when other profiles stand in the same file",
					"want": want, "got": got})
			}
			nRun++
		}
	}
	r.Coverage["real_resolve_runs"] = nRun
	r.Coverage["not_judged_out_of_contract"] = nSkipped
	r.Coverage["trace_events"] = len(recs)
	tp := filepath.Join(e.Scratch, "resolve.ndjson")
	if err := writeNDJSON(tp, recs); err != nil {
		r.Fatal = err.Error()
		return
	}
	tr, err := e.RunTLC(TLCOpts{Module: "ResolveTrace", Workers: 1, Timeout: 40 * time.Minute, Env: map[string]string{"VERIF_TRACE": tp}})
	if err != nil {
		r.Fatal = err.Error()
		return
	}
	r.AddTLC(tr)
	if !tr.Healthy() {
		r.Fatal = "ResolveTrace did not complete: " + tr.Err + tail(tr.Out, 1500)
		return
	}
	r.Traces += len(recs)
	for _, p := range tr.PrintsWithPrefix("VIOL") {
		var x struct {
			ID   string          `json:"id"`
			What string          `json:"what"`
			D    json.RawMessage `json:"d"`
		}
		if err := json.Unmarshal([]byte(p), &x); err != nil {
			r.Fatal = "bad VIOL"
			return
		}
		r.Violate("C13|"+x.ID+"|"+shortWhat(x.What), x.What, map[string]any{"id": x.ID, "detail": x.D})
	}
	r.Sample(recs[0])
	r.Sample(recs[len(recs)/2])
	r.Assume = append(r.Assume, "preambles whose += precedes the definition, and reference cycles longer than a direct self-reference, are outside the input contract (explored by TLC, not judged on the code)")
}

func compactPre(pre []rItem) string {
	parts := []string{}
	for _, it := range pre {
		if it.K != "var" {
			parts = append(parts, it.K)
			continue
		}
		vals := []string{}
		for _, v := range it.Values {
			vals = append(vals, renderValue(v))
		}
		op := "="
		if !it.Define {
			op = "+="
		}
		parts = append(parts, it.Name+op+strings.Join(vals, " "))
	}
	return strings.Join(parts, ";")
}
