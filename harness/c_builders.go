package main

import (
	"fmt"
)

func init() {
	checks["C17"] = checkC17
	checks["C05"] = checkC05
}

func fullCfgs(e *Env) []Cfg {
	res := []Cfg{}
	if e.Tier == "thorough" {
		for _, c := range AllCfgs() {
			if c.Full {
				res = append(res, c)
			}
		}
		return res
	}
	for _, c := range quickCfgs(e.Seed) {
		c.Full = true
		res = append(res, c)
	}
	return res[:min(len(res), 8)]
}

func famSetup(e *Env, r *Report) *famBuilders {
	f, err := newFamBuilders(e, r)
	if err != nil {
		r.Fatal = err.Error()
		return nil
	}
	if err := f.modelPhase(); err != nil {
		r.Fatal = err.Error()
		return nil
	}
	if err := f.augment(); err != nil {
		r.Fatal = err.Error()
		return nil
	}
	return f
}

func checkC17(e *Env, r *Report) {
	f := famSetup(e, r)
	if f == nil {
		return
	}
	cfgs := fullCfgs(e)
	eps, err := f.collect(cfgs, false)
	if err != nil {
		r.Fatal = err.Error()
		return
	}
	finals := []any{}
	for _, c := range cfgs {
		b := e.RunPrebuild(c, BuildOpts{Src: f.aug, Tag: "aug"})
		finals = append(finals, f.finalEvents(b)...)
	}
	// the same through the single-path option: `--full --file apparmor.d` builds the whole tree too
	fb := e.RunPrebuild(Cfg{"arch", 4, "4.1", "complain", true}, BuildOpts{Src: f.aug, Tag: "fileopt", NoCache: true, Extra: []string{"--file", "apparmor.d"}})
	if fb.Err == nil {
		fe := f.finalEvents(fb)
		for _, x := range fe {
			if m, ok := x.(map[string]any); ok {
				m["cfgkey"] = fmt.Sprint(m["cfgkey"]) + "+file"
			}
		}
		finals = append(finals, fe...)
		r.Coverage["file_option_build_events"] = len(fe)
		fb.Drop()
	} else {
		r.Inconcl = append(r.Inconcl, "--full --file apparmor.d did not build: "+tail(fb.Err.Error(), 200))
	}
	r.Coverage["final_events"] = len(finals)
	if err := f.validate(eps, map[string]bool{"C17": true}, map[string]bool{"C17": true}, finals...); err != nil {
		r.Fatal = err.Error()
		return
	}
	r.Coverage["configs"] = len(cfgs)
	r.Coverage["episodes"] = len(eps)
	r.Sample(map[string]any{"episode_files": eps[0].Files[:min(3, len(eps[0].Files))], "src": eps[0].Src, "steps": eps[0].Steps})
	r.Assume = append(r.Assume, "scanner (harness/scan.go) classifies exec rules correctly; cross-checked by C01's parser run",
		"builder-stage positions of source and built items correspond (asserted: SameShape)")
	_ = fmt.Sprint
}

func modeCfgs(e *Env) []Cfg {
	res := []Cfg{}
	if e.Tier == "thorough" {
		for _, c := range AllCfgs() {
			// mode behaviour depends on dist (manifests) and full (extra files); abi/version do not touch headers
			if (c.ABI == 4 && c.Ver == "4.1") || (c.ABI == 3 && c.Ver == "3.0") {
				res = append(res, c)
			}
		}
		return res
	}
	seen := map[string]bool{}
	// six base configurations x three modes: one full-policy build first (its none build is where the
	// manifests meet the full-policy profiles), then the default of every distribution
	q := quickCfgs(e.Seed)
	bases := []Cfg{{"debian", 3, "3.0", "none", true}}
	for _, d := range Dists {
		bases = append(bases, DefaultCfg(d)) // every distribution: each has its own flags manifest
	}
	_ = q
	for _, c := range bases {
		for _, m := range []string{"none", "complain", "enforce"} {
			c.Mode = m
			if !seen[c.Key()] && len(seen) < 18 {
				seen[c.Key()] = true
				res = append(res, c)
			}
		}
	}
	return res
}

func checkC05(e *Env, r *Report) {
	f := famSetup(e, r)
	if f == nil {
		return
	}
	cfgs := modeCfgs(e)
	eps, err := f.collect(cfgs, true)
	if err != nil {
		r.Fatal = err.Error()
		return
	}
	if err := f.validate(eps, map[string]bool{"C05": true}, map[string]bool{"C05": true}); err != nil {
		r.Fatal = err.Error()
		return
	}
	r.Coverage["configs"] = len(cfgs)
	r.Coverage["episodes"] = len(eps)
	r.Sample(map[string]any{"episode_files": eps[0].Files[:min(3, len(eps[0].Files))], "src": eps[0].Src, "none": eps[0].None})
	if err := f.bindingDemo(); err != nil {
		r.Fatal = err.Error()
	}
}
