package main

import (
	"fmt"
	"os"
	"path/filepath"
	"sort"
	"strings"
)

func init() {
	checks["C17"] = checkC17
	checks["C05"] = checkC05
}

func fullCfgs(e *Env) []Cfg {
	res := []Cfg{}
	if e.Tier == "thorough" {
		for _, c := range AllCfgs() {
			if c.Full {
				res = append(res, c)
			}
		}
		return res
	}
	for _, c := range quickCfgs(e.Seed) {
		c.Full = true
		res = append(res, c)
	}
	return res[:min(len(res), 8)]
}

func famSetup(e *Env, r *Report) *famBuilders {
	f, err := newFamBuilders(e, r)
	if err != nil {
		r.Fatal = err.Error()
		return nil
	}
	if err := f.modelPhase(); err != nil {
		r.Fatal = err.Error()
		return nil
	}
	if err := f.augment(); err != nil {
		r.Fatal = err.Error()
		return nil
	}
	return f
}

func checkC17(e *Env, r *Report) {
	f := famSetup(e, r)
	if f == nil {
		return
	}
	cfgs := fullCfgs(e)
	eps, err := f.collect(cfgs, false)
	if err != nil {
		r.Fatal = err.Error()
		return
	}
	finals := []any{}
	for _, c := range cfgs {
		b := e.RunPrebuild(c, BuildOpts{Src: f.aug, Tag: "aug"})
		finals = append(finals, f.finalEvents(b)...)
	}
	// the same through the single-path option: `--full --file apparmor.d` builds the whole tree too
	fb := e.RunPrebuild(Cfg{"arch", 4, "4.1", "complain", true}, BuildOpts{Src: f.aug, Tag: "fileopt", NoCache: true, Extra: []string{"--file", "apparmor.d"}})
	if fb.Err == nil {
		fe := f.finalEvents(fb)
		for _, x := range fe {
			if m, ok := x.(map[string]any); ok {
				m["cfgkey"] = fmt.Sprint(m["cfgkey"]) + "+file"
			}
		}
		finals = append(finals, fe...)
		r.Coverage["file_option_build_events"] = len(fe)
		fb.Drop()
	} else {
		r.Inconcl = append(r.Inconcl, "--full --file apparmor.d did not build: "+tail(fb.Err.Error(), 200))
	}
	r.Coverage["final_events"] = len(finals)
	if err := f.validate(eps, map[string]bool{"C17": true}, map[string]bool{"C17": true}, finals...); err != nil {
		r.Fatal = err.Error()
		return
	}
	r.Coverage["configs"] = len(cfgs)
	r.Coverage["episodes"] = len(eps)
	r.Sample(map[string]any{"episode_files": eps[0].Files[:min(3, len(eps[0].Files))], "src": eps[0].Src, "steps": eps[0].Steps})
	r.Assume = append(r.Assume, "scanner (harness/scan.go) classifies exec rules correctly; cross-checked by C01's parser run",
		"builder-stage positions of source and built items correspond (asserted: SameShape)")
	_ = fmt.Sprint
}

func modeCfgs(e *Env) []Cfg {
	res := []Cfg{}
	if e.Tier == "thorough" {
		for _, c := range AllCfgs() {
			// mode behaviour depends on dist (manifests) and full (extra files); abi/version do not touch headers
			if (c.ABI == 4 && c.Ver == "4.1") || (c.ABI == 3 && c.Ver == "3.0") {
				res = append(res, c)
			}
		}
		return res
	}
	seen := map[string]bool{}
	// six base configurations x three modes: one full-policy build first (its none build is where the
	// manifests meet the full-policy profiles), then the default of every distribution
	q := quickCfgs(e.Seed)
	bases := []Cfg{{"debian", 3, "3.0", "none", true}}
	for _, d := range Dists {
		bases = append(bases, DefaultCfg(d)) // every distribution: each has its own flags manifest
	}
	_ = q
	for _, c := range bases {
		for _, m := range []string{"none", "complain", "enforce"} {
			c.Mode = m
			if !seen[c.Key()] && len(seen) < 18 {
				seen[c.Key()] = true
				res = append(res, c)
			}
		}
	}
	return res
}

func checkC05(e *Env, r *Report) {
	f := famSetup(e, r)
	if f == nil {
		return
	}
	cfgs := modeCfgs(e)
	eps, err := f.collect(cfgs, true)
	if err != nil {
		r.Fatal = err.Error()
		return
	}
	if err := f.validate(eps, map[string]bool{"C05": true}, map[string]bool{"C05": true}); err != nil {
		r.Fatal = err.Error()
		return
	}
	if recs := append(errorPathProbe(e, r), groupBuildProbe(e, r, f)...); len(recs) > 0 {
		runDirectivesTrace(e, r, recs, "C05")
	}
	r.Coverage["configs"] = len(cfgs)
	r.Coverage["episodes"] = len(eps)
	r.Sample(map[string]any{"episode_files": eps[0].Files[:min(3, len(eps[0].Files))], "src": eps[0].Src, "none": eps[0].None})
	if err := f.bindingDemo(); err != nil {
		r.Fatal = err.Error()
	}
}

// errorPathProbe: profiles on which a builder fails (a header that names its executable literally,
// an @{exec_path} that does not resolve). The build may refuse them - then nothing is shipped and
// nothing is judged - but whatever it does ship must be in the mode that was asked for.
func errorPathProbe(e *Env, r *Report) []any {
	recs := []any{}
	mk := func(name, header string) string {
		return "abi <abi/4.0>,\n\ninclude <tunables/global>\n\n" + header + " flags=(attach_disconnected) {\n  include <abstractions/base>\n\n  /etc/x r,\n\n  profile sub flags=(mediate_deleted) {\n    include <abstractions/base>\n\n    /etc/y r,\n\n    include if exists <local/" + name + "_sub>\n  }\n\n  include if exists <local/" + name + ">\n}\n"
	}
	probes := map[string]string{
		"apparmor.d/groups/vgen/vgen-literal": mk("vgen-literal", "profile vgen-literal /usr/bin/vgen-literal"),
		"apparmor.d/groups/vgen/vgen-unres":   strings.Replace(mk("vgen-unres", "@{exec_path} = @{vgen_undefined}/x\nprofile vgen-unres @{exec_path}"), "include <tunables/global>\n\n", "include <tunables/global>\n", 1),
		"apparmor.d/groups/vgen/vgen-fine":    mk("vgen-fine", "@{exec_path} = @{bin}/vgen-fine\nprofile vgen-fine @{exec_path}"),
	}
	n := 0
	for name, text := range probes {
		src, err := e.MiniSrc("mini-errpath-"+filepath.Base(name), map[string]string{name: text, "apparmor.d/groups/vgen/vgen-fine": probes["apparmor.d/groups/vgen/vgen-fine"]})
		if err != nil {
			continue
		}
		for _, mode := range []string{"complain", "enforce"} {
			b := e.RunPrebuild(Cfg{"arch", 4, "4.1", mode, false}, BuildOpts{Src: src, Tag: "errpath", NoCache: true})
			if b.Err != nil {
				b.Drop()
				continue // refused: nothing shipped
			}
			for _, fn := range listFiles(filepath.Join(b.Out, "apparmor.d")) {
				if !strings.HasPrefix(filepath.Base(fn), "vgen-") {
					continue
				}
				t, _ := os.ReadFile(filepath.Join(b.Out, "apparmor.d", fn))
				for _, it := range Scan(string(t)) {
					if it.T != "hdr" {
						continue
					}
					has := false
					for _, fl := range it.Flags {
						if fl == "complain" {
							has = true
						}
					}
					n++
					recs = append(recs, map[string]any{"ev": "blocks", "id": fmt.Sprintf("errorpath|%s|%s|%s", fn, it.Name, mode), "what": "a profile the build shipped after a builder failed on it is not in the mode that was asked for",
						"want": []string{fmt.Sprint(mode == "complain")}, "got": []string{fmt.Sprint(has)}})
				}
			}
			b.Drop()
		}
	}
	r.Coverage["error_path_headers_judged"] = n
	return recs
}

// groupBuildProbe: prebuild --file <directory> builds one group on its own. The flags of every block of every
// profile it writes are those of the same file in the whole build of that configuration (mode and manifests
// decide, not the way the build was asked for).
func groupBuildProbe(e *Env, r *Report, f *famBuilders) []any {
	recs := []any{}
	listed := map[string]bool{}
	for _, n := range readListFile(filepath.Join(f.aug, "dists", "flags", "main.flags")) {
		listed[n] = true
	}
	count := map[string]int{}
	for _, pf := range profileFiles(f.aug) {
		if strings.HasPrefix(pf, "groups/") && !strings.HasPrefix(pf, "groups/_full/") && listed[filepath.Base(pf)] {
			count[filepath.Dir(pf)]++
		}
	}
	groups := []string{}
	for g, n := range count {
		if n >= 2 {
			groups = append(groups, g)
		}
	}
	sort.Strings(groups)
	if len(groups) > 2 && e.Tier != "thorough" {
		groups = []string{groups[int(e.Seed)%len(groups)], groups[(int(e.Seed)+len(groups)/2)%len(groups)]}
	}
	blocks := func(p string) []string {
		t, err := os.ReadFile(p)
		if err != nil {
			return nil
		}
		res := []string{}
		for _, it := range Scan(string(t)) {
			if it.T == "hdr" {
				fl := append([]string{}, it.Flags...)
				sort.Strings(fl)
				res = append(res, it.Name+" ["+strings.Join(fl, ",")+"]")
			}
		}
		return res
	}
	n := 0
	for _, mode := range Modes {
		c := Cfg{"arch", 4, "4.1", mode, false}
		whole := e.RunPrebuild(c, BuildOpts{Src: f.aug, Tag: "groupwhole", NoCache: true})
		if whole.Err != nil {
			whole.Drop()
			continue
		}
		for gi, g := range groups {
			gb := e.RunPrebuild(c, BuildOpts{Src: f.aug, Tag: fmt.Sprint("group", gi), NoCache: true, Extra: []string{"--file", filepath.Join("apparmor.d", g)}})
			if gb.Err != nil {
				gb.Drop()
				continue // a group that cannot be built on its own is not judged
			}
			for _, fn := range listFiles(filepath.Join(gb.Out, "apparmor.d")) {
				if strings.Contains(fn, "/") {
					continue
				}
				want := blocks(filepath.Join(whole.Out, "apparmor.d", fn))
				got := blocks(filepath.Join(gb.Out, "apparmor.d", fn))
				if want == nil || got == nil {
					continue
				}
				n++
				recs = append(recs, map[string]any{"ev": "blocks", "id": fmt.Sprintf("groupbuild|%s|%s", fn, mode), "what": "built on its own (--file " + g + ") the blocks of a profile have other flags than in the whole build of the same configuration",
					"want": want, "got": got})
			}
			gb.Drop()
		}
		whole.Drop()
	}
	r.Coverage["group_build_files_compared"] = n
	return recs
}
