package main

// Tree family (Tree.tla / TreeTrace.tla): C19 (source layout contract) and
// C08 (everything a built policy refers to exists in that build).

import (
	"encoding/json"
	"fmt"
	"os"
	"path/filepath"
	"sort"
	"strings"
	"time"
)

func init() {
	checks["C19"] = checkC19
	checks["C08"] = checkC08
}

type blockRec struct {
	Qual   string   `json:"qual"`
	Top    string   `json:"top"`
	Sub    string   `json:"sub"`
	Depth  int      `json:"depth"`
	Locals []string `json:"locals"`
}

// profileFiles lists the profile files of a source tree (relative to apparmor.d).
func profileFiles(src string) []string {
	res := []string{}
	root := filepath.Join(src, "apparmor.d")
	for _, f := range listFiles(root) {
		parts := strings.Split(f, "/")
		if filepath.Base(f) == "README.md" {
			continue
		}
		if (parts[0] == "groups" && len(parts) == 3) || (strings.HasPrefix(parts[0], "profiles-") && len(parts) == 2) {
			res = append(res, f)
		}
	}
	return res
}

func projectProfile(rel, text string) map[string]any {
	items := Scan(text)
	base := strings.TrimSuffix(filepath.Base(rel), ".apparmor.d")
	rec := map[string]any{"ev": "profile", "file": rel, "base": base, "abi": "", "magic": false}
	tops := []map[string]any{}
	vars := []string{}
	blocks := []*blockRec{}
	stack := []*blockRec{}
	for _, it := range items {
		switch it.T {
		case "abi":
			if it.Depth == 0 && rec["abi"] == "" {
				rec["abi"] = it.Path
				rec["magic"] = strings.Contains(it.Raw, "<")
			}
		case "var":
			if it.VarOp == "=" {
				vars = append(vars, it.VarName)
			}
		case "hdr":
			b := &blockRec{Sub: it.Name, Depth: len(stack), Locals: []string{}}
			if len(stack) == 0 {
				b.Qual, b.Top = it.Name, it.Name
				att := it.Att
				if att == nil {
					att = []string{}
				}
				tops = append(tops, map[string]any{"name": it.Name, "att": att})
			} else {
				b.Qual, b.Top = stack[len(stack)-1].Qual+"//"+it.Name, stack[0].Top
			}
			blocks = append(blocks, b)
			stack = append(stack, b)
		case "close":
			if len(stack) > 0 {
				stack = stack[:len(stack)-1]
			}
		case "inc":
			if it.IfExists && it.Magic && strings.HasPrefix(it.IncPath, "local/") && len(stack) > 0 {
				cur := stack[len(stack)-1]
				cur.Locals = append(cur.Locals, it.IncPath)
			}
		}
	}
	rec["tops"] = tops
	rec["vars"] = vars
	rec["blocks"] = blocks
	return rec
}

func checkC19(e *Env, r *Report) {
	if err := e.CopySource(); err != nil {
		r.Fatal = err.Error()
		return
	}
	recs := []any{}
	names := []string{}
	pf := profileFiles(e.Src)
	for _, f := range pf {
		b, err := os.ReadFile(filepath.Join(e.Src, "apparmor.d", f))
		if err != nil {
			r.Fatal = err.Error()
			return
		}
		rec := projectProfile(f, string(b))
		recs = append(recs, rec)
		names = append(names, rec["base"].(string))
		if len(recs) == 1 {
			r.Sample(rec)
		}
	}
	nAbs := 0
	// every abstraction, in whatever sub-directory: the files of <name>.d directories are drop-ins, not abstractions
	// (the abstractions a distribution overlay installs over the build - dists/<name>/abstractions - are abstractions too)
	absRoots := []string{filepath.Join(e.Src, "apparmor.d", "abstractions")}
	if ds, err := os.ReadDir(filepath.Join(e.Src, "dists")); err == nil {
		for _, d := range ds {
			if p := filepath.Join(e.Src, "dists", d.Name(), "abstractions"); d.IsDir() && dirExists(p) {
				absRoots = append(absRoots, p)
			}
		}
	}
	for _, absRoot := range absRoots {
		for _, rel := range listFiles(absRoot) {
			dropin := false
			for _, seg := range strings.Split(filepath.Dir(rel), "/") {
				if strings.HasSuffix(seg, ".d") {
					dropin = true
				}
			}
			if dropin {
				continue
			}
			b, _ := os.ReadFile(filepath.Join(absRoot, rel))
			incs := []string{}
			for _, it := range Scan(string(b)) {
				if it.T == "inc" && it.IfExists && it.Magic {
					incs = append(incs, it.IncPath)
				}
			}
			where := "abstractions/"
			if r2, err := filepath.Rel(e.Src, absRoot); err == nil && strings.HasPrefix(r2, "dists/") {
				where = r2 + "/"
			}
			recs = append(recs, map[string]any{"ev": "abstraction", "file": where + rel, "rel": rel, "incs": incs})
			nAbs++
		}
	}
	recs = append(recs, map[string]any{"ev": "names", "names": names})
	// "the flat output directory loses nothing": two real builds, every source profile that the ignore lists of the
	// distribution do not name must be there
	if err := e.BuildTools(); err != nil {
		r.Fatal = err.Error()
		return
	}
	flatCfgs := []Cfg{DefaultCfg("arch"), {"debian", 3, "3.0", "none", false}}
	if e.Tier == "thorough" {
		for _, d := range []string{"ubuntu", "opensuse", "whonix"} {
			flatCfgs = append(flatCfgs, DefaultCfg(d))
		}
	}
	for _, c := range flatCfgs {
		b := e.RunPrebuild(c, BuildOpts{NoCache: true, Tag: "flat"})
		if b.Err != nil {
			r.Fatal = b.Err.Error()
			return
		}
		ignored := map[string]bool{}
		ignoredDirs := []string{}
		for _, lst := range []string{"main", c.Dist} {
			for _, n := range readListFile(filepath.Join(e.Src, "dists", "ignore", lst+".ignore")) {
				n = strings.TrimSpace(n)
				if strings.Contains(n, "/") {
					ignoredDirs = append(ignoredDirs, strings.TrimPrefix(n, "apparmor.d/"))
				} else {
					ignored[n] = true
				}
			}
		}
		lost := []string{}
		for _, f := range pf {
			base := filepath.Base(f)
			skip := ignored[base]
			for _, d := range ignoredDirs {
				if f == d || strings.HasPrefix(f, strings.TrimSuffix(d, "/")+"/") {
					skip = true
				}
			}
			if skip || strings.HasPrefix(f, "groups/_full/") || (c.Ver == "4.1" && configureRemoved[base]) {
				continue // (the configure step removes the profiles upstreamed in 4.1)
			}
			found := false
			for _, n := range []string{base, base + ".apparmor.d"} {
				if _, err := os.Stat(filepath.Join(b.Out, "apparmor.d", n)); err == nil {
					found = true
				}
			}
			if !found {
				lost = append(lost, f)
			}
		}
		recs = append(recs, map[string]any{"ev": "flat", "cfgkey": c.Key(), "lost": lost})
		b.Drop()
	}
	r.Coverage["flat_output_builds"] = len(flatCfgs)
	r.Coverage["profile_files"] = len(pf)
	r.Coverage["abstractions"] = nAbs
	if len(pf) < 100 {
		r.Fatal = fmt.Sprintf("only %d profile files found in the source tree", len(pf))
		return
	}
	runTreeTrace(e, r, recs, "C19")
	r.Coverage["exhaustive"] = true
}

// runTreeTrace validates recs with TreeTrace and turns VIOL lines into violations of prop.
func runTreeTrace(e *Env, r *Report, recs []any, prop string) {
	tp := filepath.Join(e.Scratch, fmt.Sprintf("tree-%d.ndjson", time.Now().UnixNano()))
	if err := writeNDJSON(tp, recs); err != nil {
		r.Fatal = err.Error()
		return
	}
	res, err := e.RunTLC(TLCOpts{Module: "TreeTrace", Workers: 1, Timeout: 20 * time.Minute, Env: map[string]string{"VERIF_TRACE": tp}})
	if err != nil {
		r.Fatal = err.Error()
		return
	}
	r.AddTLC(res)
	if !res.Healthy() {
		r.Fatal = fmt.Sprintf("TreeTrace did not complete: %s %s", res.Err, tail(res.Out, 1500))
		return
	}
	r.Traces += len(recs)
	for _, p := range res.PrintsWithPrefix("VIOL") {
		var x struct {
			P    string          `json:"p"`
			Key  string          `json:"key"`
			What string          `json:"what"`
			D    json.RawMessage `json:"d"`
		}
		if err := json.Unmarshal([]byte(p), &x); err != nil {
			r.Fatal = "bad VIOL line: " + p
			return
		}
		if x.P != prop {
			continue
		}
		r.Violate(x.P+"|"+x.Key, x.What+" "+strings.ReplaceAll(string(x.D), "\"", ""), map[string]any{"key": x.Key, "detail": x.D})
	}
}

// ---------------------------------------------------------------- C08

var childModes = map[string]bool{"cx": true, "Cx": true, "cix": true, "Cix": true, "cux": true, "CUx": true}

func isPattern(t string) bool { return strings.ContainsAny(t, "*?[{") || strings.Contains(t, "@{") }

// definedNames returns the qualified profile names defined by the policy files directly under dir
// (recursing only into sub-directories that are not abstractions/tunables/local/...).
func definedNames(root string) []string {
	res := []string{}
	skip := map[string]bool{"abstractions": true, "tunables": true, "local": true, "mappings": true, "disable": true, "abi": true, "cache": true, "force-complain": true, "apache2.d": true}
	ents, _ := os.ReadDir(root)
	for _, en := range ents {
		p := filepath.Join(root, en.Name())
		fi, err := os.Stat(p)
		if err != nil {
			continue
		}
		if fi.IsDir() {
			if !skip[en.Name()] {
				res = append(res, definedNames(p)...)
			}
			continue
		}
		b, _ := os.ReadFile(p)
		res = append(res, QualNames(Scan(string(b)))...)
	}
	return res
}

func buildRefs(root string, cfgkey string) []any {
	recs := []any{}
	for _, fn := range listFiles(root) {
		top := strings.Split(fn, "/")[0]
		if top == "tunables" || top == "local" || top == "disable" {
			continue
		}
		p := filepath.Join(root, fn)
		fi, err := os.Lstat(p)
		if err != nil || !fi.Mode().IsRegular() {
			continue
		}
		b, _ := os.ReadFile(p)
		stack := []string{}
		inPolicy := top != "abstractions" && top != "mappings"
		for _, it := range Scan(string(b)) {
			x := it
			if it.T == "dir" && it.Inline && it.Body != nil {
				x = *it.Body
			}
			switch {
			case it.T == "hdr":
				q := it.Name
				if len(stack) > 0 {
					q = stack[len(stack)-1] + "//" + it.Name
				}
				stack = append(stack, q)
			case it.T == "close":
				if len(stack) > 0 {
					stack = stack[:len(stack)-1]
				}
			case x.T == "exec" && x.Target != "":
				child := childModes[x.Mode]
				encl := ""
				if len(stack) > 0 {
					encl = stack[len(stack)-1]
				}
				if child && (!inPolicy || encl == "") {
					continue // a child transition inside an abstraction: the enclosing profile is not known here
				}
				tg := strings.Trim(x.Target, "\"")
				recs = append(recs, map[string]any{"ev": "ref", "key": fmt.Sprintf("%s|%s -> %s|%s", fn, x.Mode, tg, distOfKey(cfgkey)), "kind": "exec", "child": child, "encl": encl,
					"target": tg, "parts": strings.Split(tg, "//&"), "pattern": isPattern(tg)})
			case x.T == "rule" && x.Kind == "change_profile" && strings.Contains(x.Path, "->"):
				tg := strings.TrimSpace(x.Path[strings.Index(x.Path, "->")+2:])
				tg = strings.Trim(tg, "\"")
				recs = append(recs, map[string]any{"ev": "ref", "key": fmt.Sprintf("%s|change_profile -> %s|%s", fn, tg, distOfKey(cfgkey)), "kind": "change_profile", "child": false, "encl": "",
					"target": tg, "parts": strings.Split(tg, "//&"), "pattern": isPattern(tg)})
			}
		}
	}
	return recs
}

func dropinRefs(root string) []any {
	recs := []any{}
	for _, fn := range listFiles(root) {
		b, _ := os.ReadFile(filepath.Join(root, fn))
		for _, l := range strings.Split(string(b), "\n") {
			l = strings.TrimSpace(l)
			if strings.HasPrefix(l, "AppArmorProfile=") {
				tg := strings.TrimPrefix(l, "AppArmorProfile=")
				recs = append(recs, map[string]any{"ev": "ref", "key": fmt.Sprintf("systemd/%s|AppArmorProfile=%s", fn, tg), "kind": "dropin", "child": false, "encl": "",
					"target": tg, "parts": []string{tg}, "pattern": false})
			}
		}
	}
	return recs
}

func readListFile(p string) []string {
	res := []string{}
	b, err := os.ReadFile(p)
	if err != nil {
		return res
	}
	for _, l := range strings.Split(string(b), "\n") {
		if i := strings.Index(l, "#"); i >= 0 {
			l = l[:i]
		}
		f := strings.Fields(l)
		if len(f) > 0 {
			res = append(res, f[0])
		}
	}
	return res
}

func checkC08(e *Env, r *Report) {
	if err := e.BuildTools(); err != nil {
		r.Fatal = err.Error()
		return
	}
	if err := e.CopySource(); err != nil {
		r.Fatal = err.Error()
		return
	}
	nSib := addSiblingProbes(e.Src)
	r.Coverage["sibling_probes"] = nSib
	recs := []any{}
	// static part: manifests and directive arguments name source profiles
	srcNames := []string{}
	for _, f := range profileFiles(e.Src) {
		srcNames = append(srcNames, strings.TrimSuffix(filepath.Base(f), ".apparmor.d"))
	}
	sort.Strings(srcNames)
	recs = append(recs, map[string]any{"ev": "sources", "names": srcNames})
	flagFiles, _ := filepath.Glob(filepath.Join(e.Src, "dists", "flags", "*.flags"))
	sort.Strings(flagFiles)
	for _, ff := range flagFiles {
		for _, n := range readListFile(ff) {
			recs = append(recs, map[string]any{"ev": "named", "key": "flags/" + filepath.Base(ff) + "|" + n, "name": n})
		}
	}
	for _, n := range readListFile(filepath.Join(e.Src, "dists", "overwrite")) {
		recs = append(recs, map[string]any{"ev": "named", "key": "overwrite|" + n, "name": n})
	}
	for _, f := range profileFiles(e.Src) {
		b, _ := os.ReadFile(filepath.Join(e.Src, "apparmor.d", f))
		for _, it := range Scan(string(b)) {
			if it.T == "dir" && (it.DKind == "stack" || it.DKind == "exec") {
				for i, a := range it.Args {
					if i == 0 && (a == "X" || a == "P" || a == "U" || a == "p" || a == "u" || a == "PU" || a == "pu") {
						continue
					}
					recs = append(recs, map[string]any{"ev": "named", "key": "directive/" + filepath.Base(f) + "|" + it.DKind + " " + a, "name": a})
				}
			}
		}
	}
	nStatic := len(recs)
	upstream := definedNames("/etc/apparmor.d")
	sort.Strings(upstream)
	// builds
	cfgs := []Cfg{}
	if e.Tier == "thorough" {
		for _, d := range Dists {
			for _, full := range []bool{false, true} {
				for _, abi := range []int{3, 4} {
					v := "4.1"
					if abi == 3 {
						v = "3.0"
					}
					cfgs = append(cfgs, Cfg{d, abi, v, "complain", full})
				}
			}
		}
	} else {
		for i, d := range Dists {
			c := DefaultCfg(d)
			c.Full = (int(e.Seed)+i)%2 == 0
			cfgs = append(cfgs, c)
		}
		cfgs = append(cfgs, Cfg{"arch", 4, "4.1", "complain", true}, Cfg{"debian", 3, "3.0", "complain", true}, Cfg{"ubuntu", 4, "4.0", "complain", false})
	}
	builds := make([]*Build, len(cfgs))
	parallel(len(cfgs), 8, func(i int) { builds[i] = e.RunPrebuild(cfgs[i], BuildOpts{}) })
	nRefs := 0
	for i, b := range builds {
		if b.Err != nil {
			r.Fatal = b.Err.Error()
			return
		}
		defs := definedNames(filepath.Join(b.Out, "apparmor.d"))
		sort.Strings(defs)
		recs = append(recs, map[string]any{"ev": "build", "cfgkey": cfgs[i].Key(), "defines": defs, "upstream": upstream})
		refs := buildRefs(filepath.Join(b.Out, "apparmor.d"), cfgs[i].Key())
		refs = append(refs, dropinRefs(filepath.Join(b.Out, "systemd"))...)
		nRefs += len(refs)
		recs = append(recs, refs...)
		if i == 0 && len(refs) > 0 {
			r.Sample(refs[0])
		}
	}
	r.Coverage["configs"] = len(cfgs)
	r.Coverage["references_checked"] = nRefs
	r.Coverage["static_names_checked"] = nStatic - 1
	r.Coverage["upstream_names"] = len(upstream)
	r.Assume = append(r.Assume, "a name also resolves when the upstream policy directory the build is installed over (/etc/apparmor.d of apparmor 3.0.8) defines it",
		"targets containing a variable or a glob are patterns and exempt, as the statement allows")
	runTreeTrace(e, r, recs, "C08")
}

// addSiblingProbes: for every directory an ignore list removes (apparmor.d/groups/X) and every sibling
// group whose name merely starts with X (and that no list removes), a generated profile with a named
// transition into the sibling is added to the private source copy: an ignore entry must not reach it.
func addSiblingProbes(src string) int {
	ignoredDirs := map[string]bool{}
	files, _ := filepath.Glob(filepath.Join(src, "dists", "ignore", "*.ignore"))
	for _, f := range files {
		for _, en := range readListFile(f) {
			en = strings.TrimSuffix(en, "/")
			if strings.HasPrefix(en, "apparmor.d/groups/") && strings.Count(en, "/") == 2 {
				ignoredDirs[strings.TrimPrefix(en, "apparmor.d/groups/")] = true
			}
		}
	}
	groups, _ := os.ReadDir(filepath.Join(src, "apparmor.d", "groups"))
	n := 0
	for x := range ignoredDirs {
		for _, g := range groups {
			s := g.Name()
			if !g.IsDir() || s == x || !strings.HasPrefix(s, x) || ignoredDirs[s] {
				continue
			}
			ents, _ := os.ReadDir(filepath.Join(src, "apparmor.d", "groups", s))
			for _, en := range ents {
				if en.IsDir() {
					continue
				}
				q := en.Name()
				name := "zz-vgen-sib-" + q
				text := "abi <abi/4.0>,\n\ninclude <tunables/global>\n\n@{exec_path} = @{bin}/" + name + "\nprofile " + name + " @{exec_path} {\n  include <abstractions/base>\n\n  @{exec_path} mr,\n\n  @{bin}/" + q + " rPx -> " + q + ",\n\n  include if exists <local/" + name + ">\n}\n"
				d := filepath.Join(src, "apparmor.d", "groups", "vgen-sib")
				_ = os.MkdirAll(d, 0o755)
				if os.WriteFile(filepath.Join(d, name), []byte(text), 0o644) == nil {
					n++
				}
				break
			}
		}
	}
	return n
}

func dirExists(p string) bool {
	st, err := os.Stat(p)
	return err == nil && st.IsDir()
}

// distOfKey: the distribution of a configuration key ("whonix-abi3-v3.0-complain-n"): a reference can dangle on one
// distribution and resolve on another, so the distribution is part of what identifies a dangling reference
func distOfKey(cfgkey string) string {
	if i := strings.Index(cfgkey, "-abi"); i > 0 {
		return cfgkey[:i]
	}
	return cfgkey
}
