package main

// Pipeline.tla / PipelineTrace.tla: the hook events of one real prebuild run, in the order
// they were emitted, must be a behaviour of the two-pass pipeline specification.

import (
	"fmt"
	"path/filepath"
	"sort"
	"strings"
	"time"
)

// pipelinePhase: design check of the pipeline model (the two-pass design holds, the pinned one-pass
// design is rejected) and trace validation of one real run. Disagreements are DRIFT (the behavioural
// checks of the property carry the verdict).
func pipelinePhase(e *Env, r *Report, src string, c Cfg) {
	ok, err := e.RunTLC(TLCOpts{Module: "MC_Pipeline", Workers: 2, Timeout: 5 * time.Minute})
	if err != nil || !ok.Healthy() {
		r.Drift = append(r.Drift, "MC_Pipeline: the two-pass design does not satisfy ReadsBuilt / WriteAfterBuild / Complete")
	} else {
		r.AddTLC(ok)
	}
	one, err := e.RunTLC(TLCOpts{Module: "MC_Pipeline", Cfg: "MC_Pipeline_onepass.cfg", Workers: 2, Timeout: 5 * time.Minute})
	if err == nil && one.InvViol != "ReadsBuilt" {
		r.Drift = append(r.Drift, "MC_Pipeline_onepass: the pinned one-pass design was expected to violate ReadsBuilt")
	}
	b := e.RunPrebuild(c, BuildOpts{Src: src, Tag: "pipeline", NoCache: true})
	if b.Err != nil {
		r.Inconcl = append(r.Inconcl, "pipeline trace: "+b.Err.Error())
		return
	}
	defer b.Drop()
	evs, err := readEvents(b.Trace)
	if err != nil {
		r.Inconcl = append(r.Inconcl, "pipeline trace: "+err.Error())
		return
	}
	rel := func(p string) string {
		if i := strings.Index(p, "apparmor.d/"); i >= 0 {
			return p[i+len("apparmor.d/"):]
		}
		return filepath.Base(p)
	}
	recs := []any{}
	var prepares, builders []string
	order := []string{}
	seen := map[string]bool{}
	reads := map[string][]string{}
	for _, ev := range evs {
		switch ev["ev"] {
		case "chain":
			prepares, builders = toStrs(ev["prepares"]), toStrs(ev["builds"])
			recs = append(recs, map[string]any{"ev": "chain", "name": "", "file": ""})
		case "prepare":
			recs = append(recs, map[string]any{"ev": "prepare", "name": str(ev["name"]), "file": ""})
		case "builder":
			f := rel(str(ev["file"]))
			if !seen[f] {
				seen[f] = true
				order = append(order, f)
			}
			recs = append(recs, map[string]any{"ev": "builder", "name": str(ev["name"]), "file": f})
		case "directive":
			f := rel(str(ev["file"]))
			n := str(ev["name"])
			if n == "stack" || n == "exec" {
				raw := str(ev["raw"])
				if i := strings.Index(raw, "#aa:"+n); i >= 0 {
					for _, tok := range strings.Fields(raw[i+len("#aa:"+n):]) {
						reads[f] = append(reads[f], tok)
					}
				}
			}
			recs = append(recs, map[string]any{"ev": "directive", "name": n, "file": f})
		case "write":
			recs = append(recs, map[string]any{"ev": "write", "name": "", "file": rel(str(ev["file"]))})
		}
	}
	if len(order) == 0 || len(builders) == 0 {
		r.Inconcl = append(r.Inconcl, "pipeline trace: no builder events recorded")
		return
	}
	readsLit := map[string]any{}
	ks := []string{}
	for k := range reads {
		ks = append(ks, k)
	}
	sort.Strings(ks)
	for _, k := range ks {
		readsLit[k] = reads[k]
	}
	if err := e.WriteDataModule("PipelineData", "PipelineMeta", map[string]any{"prepares": prepares, "builders": builders, "order": order, "reads": readsLit}); err != nil {
		r.Inconcl = append(r.Inconcl, "pipeline trace: "+err.Error())
		return
	}
	tp := filepath.Join(e.Scratch, "pipeline.ndjson")
	if err := writeNDJSON(tp, recs); err != nil {
		r.Inconcl = append(r.Inconcl, "pipeline trace: "+err.Error())
		return
	}
	tr, err := e.RunTLC(TLCOpts{Module: "PipelineTrace", Workers: 1, Cdot: true, Timeout: 30 * time.Minute, Env: map[string]string{"VERIF_TRACE": tp}})
	if err != nil {
		r.Inconcl = append(r.Inconcl, "pipeline trace: "+err.Error())
		return
	}
	r.AddTLC(tr)
	r.Coverage["pipeline_events"] = len(recs)
	r.Coverage["pipeline_files"] = len(order)
	switch {
	case tr.InvViol != "":
		r.Drift = append(r.Drift, fmt.Sprintf("pipeline trace of %s: the recorded run violates %s of Pipeline.tla (a directive read a file that had not been through every builder)", c.Key(), tr.InvViol))
	case tr.PostFailed || !tr.OK:
		r.Drift = append(r.Drift, fmt.Sprintf("pipeline trace of %s: the recorded event order is not a behaviour of the two-pass specification (explained %d of %d events) %s", c.Key(), tr.Depth-1, len(recs), tail(tr.Err, 200)))
	default:
		r.Coverage["pipeline_trace_accepted"] = true
		// binding demonstration: the same events with the first directive moved before the last builder
		// event (what a one-pass build would record) must be rejected
		firstDir, lastBuilder := -1, -1
		for i, x := range recs {
			m := x.(map[string]any)
			if m["ev"] == "directive" && firstDir < 0 {
				firstDir = i
			}
			if m["ev"] == "builder" {
				lastBuilder = i
			}
		}
		if firstDir > lastBuilder && lastBuilder > 0 {
			bad := append([]any{}, recs[:lastBuilder]...)
			bad = append(bad, recs[firstDir])
			bad = append(bad, recs[lastBuilder:firstDir]...)
			bad = append(bad, recs[firstDir+1:]...)
			bp := filepath.Join(e.Scratch, "pipeline-corrupt.ndjson")
			if err := writeNDJSON(bp, bad); err == nil {
				br, err := e.RunTLC(TLCOpts{Module: "PipelineTrace", Workers: 1, Cdot: true, Timeout: 30 * time.Minute, Env: map[string]string{"VERIF_TRACE": bp}})
				if err == nil && br.OK && !br.PostFailed {
					r.Drift = append(r.Drift, "pipeline trace: a corrupted event order (directive before the last builder) was accepted - the trace specification binds nothing")
				} else {
					r.Coverage["pipeline_corrupted_trace_rejected"] = true
				}
			}
		}
	}
}
