package main

// C14: aa-log shows every matching event exactly once, in order, and only those
// (AaLog.tla / MC_AaLog / AaLogTrace.tla). TLC enumerates abstract logs; each is rendered
// as a real log file (audit format and journald JSON) and given to the REAL aa-log binary.

import (
	"bytes"
	"encoding/json"
	"fmt"
	"math/rand"
	"os"
	"os/exec"
	"path/filepath"
	"regexp"
	"strconv"
	"strings"
	"time"
)

func init() { checks["C14"] = checkC14 }

type logLine struct {
	Cls   string   `json:"cls"`
	ID    int      `json:"id"`
	Cid   string   `json:"cid"`
	Prof  []string `json:"prof"`
	Noise bool     `json:"noise"`
}

func renderLogLine(ln logLine, pos int, variant int) string {
	prof := strings.Join(ln.Prof, "")
	twin := strings.HasSuffix(ln.Cid, "t")
	ln.Cid = strings.TrimSuffix(ln.Cid, "t")
	marker := "mk_" + ln.Cid + "_" + markerTail
	head := fmt.Sprintf("type=AVC msg=audit(1700000%03d.%03d:%d): ", pos, pos, 100+pos)
	switch ln.Cls {
	case "ALLOWED", "DENIED", "AUDIT":
		name := "/vm/" + ln.Cid + "/file"
		if ln.Noise {
			name = "/usr/share/locale/fr/LC_MESSAGES/" + ln.Cid + ".mo"
		}
		ids := "fsuid=1000 ouid=1000"
		if twin {
			ids = `fsuid=1001 ouid=1001 hostname=other`
		}
		return head + fmt.Sprintf(`apparmor="%s" operation="open" class="file" profile="%s" name="%s" pid=%d comm="%s" requested_mask="r" denied_mask="r" %s`, ln.Cls, prof, name, 2000+pos, marker, ids)
	case "long":
		// longer than any buffer (72 KiB), or exactly a multiple of the usual buffer sizes
		mk := func(pad int) string {
			name := "/vm/" + ln.Cid + "/" + strings.Repeat("verylongcomponent/", pad/18) + strings.Repeat("x", pad%18)
			return head + fmt.Sprintf(`apparmor="DENIED" operation="open" class="file" profile="%s" name="%s" pid=%d comm="%s" requested_mask="r" denied_mask="r" fsuid=1000 ouid=1000`, prof, name, 2000+pos, marker)
		}
		targets := []int{0, 4096, 8192, 65536, 4095, 4097, 8191, 65535, 1<<20 + 1, 0, 4096, 3 << 20} // and beyond any fixed cap a reader may set (1 MiB, 2 MiB)
		if t := targets[variant%len(targets)]; t > 0 {                                               // the same in every line of one log (duplicates must stay duplicates)
			base := len(mk(0))
			if t > base {
				return mk(t - base)
			}
		}
		return mk(72000)
	case "trunc": // an event cut off inside a quoted value (odd number of quotes)
		return head + fmt.Sprintf(`apparmor="DENIED" operation="open" class="file" profile="%s" comm="%s" pid=%d requested_mask="r" fsuid=1000 ouid=1000 name="/vm/%s/trunca`, prof, marker, 2000+pos, ln.Cid)
	case "STATUS":
		return head + fmt.Sprintf(`apparmor="STATUS" operation="profile_load" profile="unconfined" name="%s" pid=%d comm="%s"`, prof, 2000+pos, marker)
	case "foreign":
		// a line of another subsystem: syslog text, a JSON object, the tail of a line cut by a log rotation
		switch variant % 4 {
		case 1:
			return fmt.Sprintf(`{"MESSAGE_ID":"%d","UNIT":"cron.service","TEXT":"job %s done"}`, pos, marker)
		case 2:
			return fmt.Sprintf(`{ cut off by a rotation %s`, marker)
		}
		return fmt.Sprintf("Oct  1 12:00:%02d host kernel: usb 1-%d: new high-speed USB device %s", pos%60, pos, marker)
	case "blank":
		return ""
	case "garbled":
		return "\x01\x02 ]]{{ apparmor garbage " + marker + " =\"\"= \\"
	}
	return ""
}

// the marker ends with text a formatting function would misread
const markerTail = "%d%s_100%"

var reMarker = regexp.MustCompile(`mk_(c[0-9]+)_`)
var reVmPath = regexp.MustCompile(`/vm/(c[0-9]+)/`)

type aaLogRun struct {
	Stdout string
	Exit   int
}

func runAaLog(e *Env, args ...string) aaLogRun {
	cmd := exec.Command(e.AaLog, args...)
	var out, errb bytes.Buffer
	cmd.Stdout = &out
	cmd.Stderr = &errb
	err := cmd.Run()
	code := 0
	if err != nil {
		code = 1
		if ee, ok := err.(*exec.ExitError); ok {
			code = ee.ExitCode()
			if code < 0 {
				code = 99
			}
			if strings.Contains(errb.String(), "panic:") {
				code = 98
			}
		}
	}
	return aaLogRun{out.String(), code}
}

func checkC14(e *Env, r *Report) {
	if err := e.BuildTools(); err != nil {
		r.Fatal = err.Error()
		return
	}
	mlen := "3"
	if e.Tier == "thorough" {
		mlen = "4"
	}
	res, err := e.RunTLC(TLCOpts{Module: "MC_AaLog", Workers: 12, Timeout: 20 * time.Minute, Env: map[string]string{"VERIF_LOG_LEN": mlen}})
	if err != nil {
		r.Fatal = err.Error()
		return
	}
	r.AddTLC(res)
	if !res.Healthy() {
		r.Fatal = "MC_AaLog did not complete: " + res.Err + tail(res.Out, 800)
		return
	}
	r.Coverage["model_leads"] = len(res.PrintsWithPrefix("LEAD"))
	logs := [][]logLine{}
	for _, p := range res.PrintsWithPrefix("BEH") {
		var b struct {
			Input []logLine `json:"input"`
		}
		if err := json.Unmarshal([]byte(p), &b); err != nil {
			r.Fatal = "bad BEH"
			return
		}
		logs = append(logs, b.Input)
	}
	r.Coverage["model_logs"] = len(logs)
	if len(logs) == 0 {
		r.Fatal = "MC_AaLog emitted nothing"
		return
	}
	rng := rand.New(rand.NewSource(e.Seed))
	// sample: every log of length <= 2, a seeded sample of the longer ones; each with a rotating mode/filter
	maxRuns := 700
	if e.Tier == "thorough" {
		maxRuns = 6000
	}
	type job struct {
		log    []logLine
		mode   string
		filter []string
		fmtJ   bool
		syslog bool
	}
	filters := [][]string{{}, {"p", "a"}, {"p", "a", "b"}, {"z", "z"}}
	modes := []string{"default", "raw", "rules"}
	jobs := []job{}
	for _, lg := range logs {
		if len(lg) > 2 && rng.Intn(len(logs)) > maxRuns {
			continue
		}
		f3 := rng.Intn(3)
		jobs = append(jobs, job{lg, modes[rng.Intn(3)], filters[rng.Intn(4)], f3 == 0, f3 == 1})
	}
	// seeded longer logs beyond the exhaustive bound
	menu := logs // reuse single lines of the enumerated logs as a menu
	nLong := 60
	if e.Tier == "thorough" {
		nLong = 600
	}
	for i := 0; i < nLong; i++ {
		lg := []logLine{}
		for k := 0; k < 5+rng.Intn(8); k++ {
			src := menu[rng.Intn(len(menu))]
			ln := src[rng.Intn(len(src))]
			ln.ID = len(lg) + 1
			lg = append(lg, ln)
		}
		f3 := rng.Intn(3)
		jobs = append(jobs, job{lg, modes[rng.Intn(3)], filters[rng.Intn(4)], f3 == 0, f3 == 1})
	}
	recs := make([]any, len(jobs))
	dir := filepath.Join(e.Scratch, "logs")
	_ = os.MkdirAll(dir, 0o755)
	parallel(len(jobs), 12, func(i int) {
		j := jobs[i]
		var b strings.Builder
		for k, ln := range j.log {
			line := renderLogLine(ln, k+1, i)
			if j.fmtJ {
				if ln.Cls == "garbled" || ln.Cls == "blank" {
					b.WriteString(line + "\n") // a line journalctl did not produce
				} else if (i+k)%3 == 0 {
					// journald writes a message that is not printable UTF-8 as an array of numbers; any message may come so
					nums := make([]int, len(line))
					for x := 0; x < len(line); x++ {
						nums[x] = int(line[x])
					}
					jb, _ := json.Marshal(map[string]any{"MESSAGE": nums, "_TRANSPORT": "audit"})
					b.Write(jb)
					b.WriteString("\n")
				} else {
					jb, _ := json.Marshal(map[string]string{"MESSAGE": line})
					b.Write(jb)
					b.WriteString("\n")
				}
			} else if j.syslog && line != "" && ln.Cls != "foreign" && ln.Cls != "garbled" {
				// the same record as the kernel ring buffer / syslog shows it
				b.WriteString(fmt.Sprintf("Oct  1 12:00:%02d host kernel: [ %4d.%06d] audit: ", k%60, 1000+k, k) + strings.Replace(line, "type=AVC msg=audit(", "type=1400 audit(", 1) + "\n")
			} else {
				b.WriteString(line + "\n")
			}
		}
		p := filepath.Join(dir, fmt.Sprintf("log-%d.log", i))
		_ = os.WriteFile(p, []byte(b.String()), 0o644)
		args := []string{"-f", p}
		if j.fmtJ {
			args = append(args, "-s")
		}
		switch j.mode {
		case "raw":
			args = append(args, "-R")
		case "rules":
			args = append(args, "-r")
		}
		if len(j.filter) > 0 {
			args = append(args, strings.Join(j.filter, ""))
		}
		r1 := runAaLog(e, args...)
		stable := true
		for k := 0; k < 2; k++ {
			r2 := runAaLog(e, args...)
			if r2.Stdout != r1.Stdout || r2.Exit != r1.Exit {
				stable = false
			}
		}
		// first id of each content identity; a marker can be shared by twins (records that differ in fields
		// the display does not show): the k-th printed line of a marker is the k-th such identity
		first := map[string]int{}
		cands := map[string][]int{}
		for _, ln := range j.log {
			if _, ok := first[ln.Cid]; !ok {
				first[ln.Cid] = ln.ID
				base := strings.TrimSuffix(ln.Cid, "t")
				cands[base] = append(cands[base], ln.ID)
			}
		}
		seenMk := map[string]int{}
		out := []int{}
		re := reMarker
		if j.mode == "rules" {
			re = reVmPath
		}
		garbled := []int{}
		for _, line := range strings.Split(r1.Stdout, "\n") {
			if m := re.FindStringSubmatch(line); m != nil {
				k := seenMk[m[1]]
				seenMk[m[1]]++
				switch {
				case j.mode == "rules":
					out = append(out, cands[m[1]]...) // twins give the same rule
				case k < len(cands[m[1]]):
					out = append(out, cands[m[1]][k])
				default:
					out = append(out, -1)
				}
				// the printed line carries the record's own text, not a re-interpretation of it
				if j.mode != "rules" && !strings.Contains(line, "mk_"+m[1]+"_"+markerTail) {
					garbled = append(garbled, first[m[1]])
				}
				_ = first
			}
		}
		fmtName := "audit"
		if j.fmtJ {
			fmtName = "journald"
		} else if j.syslog {
			fmtName = "syslog"
		}
		recs[i] = map[string]any{"ev": "run", "id": fmt.Sprintf("%s|%s|%s|filter=%s", compactLog(j.log), fmtName, j.mode, strings.Join(j.filter, "")), "mode": j.mode, "filter": j.filter,
			"input": j.log, "output": out, "exit": r1.Exit, "stable": stable, "garbled": garbled}
		_ = os.Remove(p)
	})
	// bulk logs: thousands of distinct records, one of them repeated far apart (whatever is done in batches, buffers
	// or chunks of a fixed size has its boundary somewhere in there)
	nBulk := 0
	for bi, total := range []int{6000, 9500} {
		for _, mode := range []string{"raw", "default"} {
			var b strings.Builder
			repeatAt := map[int]bool{3000: true, 5000: true, total - 1: true, 4096: true, 8192: true}
			distinct := 0
			for k := 0; k < total; k++ {
				cid := fmt.Sprintf("c%d", 100000+k)
				if repeatAt[k] {
					cid = "c100000" // the first record again (other timestamp, other pid)
				} else {
					distinct++
				}
				b.WriteString(fmt.Sprintf(`type=AVC msg=audit(1800%06d.%03d:%d): apparmor="DENIED" operation="open" class="file" profile="bulk" name="/vm/%s/file" pid=%d comm="mk_%s_x" requested_mask="r" denied_mask="r" fsuid=1000 ouid=1000`, k, k%1000, k, cid, 1000+k, cid) + "\n")
			}
			p := filepath.Join(dir, fmt.Sprintf("bulk-%d-%s.log", bi, mode))
			_ = os.WriteFile(p, []byte(b.String()), 0o644)
			args := []string{"-f", p}
			if mode == "raw" {
				args = append(args, "-R")
			}
			run := runAaLog(e, args...)
			shown, rep, last, inorder := 0, 0, -1, true
			for _, line := range strings.Split(run.Stdout, "\n") {
				m := reMarker.FindStringSubmatch(line)
				if m == nil {
					continue
				}
				shown++
				n, _ := strconv.Atoi(strings.TrimPrefix(m[1], "c"))
				if n == 100000 {
					rep++
				}
				if n < last {
					inorder = false
				}
				last = n
			}
			recs = append(recs, map[string]any{"ev": "bulk", "id": fmt.Sprintf("bulk|%d records|%s", total, mode), "exit": run.Exit, "distinct": distinct, "shown": shown, "repeatedshown": rep, "inorder": inorder})
			_ = os.Remove(p)
			nBulk++
		}
	}
	r.Coverage["bulk_logs"] = nBulk
	r.Coverage["aa_log_runs"] = len(jobs) * 3
	r.Sample(recs[0])
	r.Sample(recs[len(recs)-1])
	runAaLogTrace(e, r, recs, "C14")
	if r.Fatal == "" {
		lineModel(e, r, "C14")
	}
}

func compactLog(lg []logLine) string {
	parts := []string{}
	for _, ln := range lg {
		n := ""
		if ln.Noise {
			n = "~noise"
		}
		parts = append(parts, fmt.Sprintf("%s:%s:%s%s", ln.Cls, ln.Cid, strings.Join(ln.Prof, ""), n))
	}
	return strings.Join(parts, ",")
}

func runAaLogTrace(e *Env, r *Report, recs []any, prop string) {
	tp := filepath.Join(e.Scratch, "aalog-"+prop+".ndjson")
	if err := writeNDJSON(tp, recs); err != nil {
		r.Fatal = err.Error()
		return
	}
	tr, err := e.RunTLC(TLCOpts{Module: "AaLogTrace", Workers: 1, Timeout: 40 * time.Minute, Env: map[string]string{"VERIF_TRACE": tp}})
	if err != nil {
		r.Fatal = err.Error()
		return
	}
	r.AddTLC(tr)
	if !tr.Healthy() {
		r.Fatal = "AaLogTrace did not complete: " + tr.Err + tail(tr.Out, 1500)
		return
	}
	r.Traces += len(recs)
	for _, p := range tr.PrintsWithPrefix("VIOL") {
		var x struct {
			P    string          `json:"p"`
			ID   string          `json:"id"`
			What string          `json:"what"`
			D    json.RawMessage `json:"d"`
		}
		if err := json.Unmarshal([]byte(p), &x); err != nil {
			r.Fatal = "bad VIOL"
			return
		}
		if x.P != prop {
			continue
		}
		r.Violate(prop+"|"+x.ID+"|"+shortWhat(x.What), x.What, map[string]any{"id": x.ID, "detail": x.D})
	}
}
