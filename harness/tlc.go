package main

import (
	"bufio"
	"bytes"
	"context"
	"fmt"
	"os"
	"os/exec"
	"path/filepath"
	"regexp"
	"strconv"
	"strings"
	"time"
)

type TLCResult struct {
	Module     string
	Cfg        string
	Generated  int
	Distinct   int
	Depth      int
	OK         bool // finished with "No error has been found"
	InvViol    string
	PostFailed bool
	TimedOut   bool
	Err        string // any "Error:" text
	Prints     []string
	Coverage   map[string]int // action -> count (when -coverage)
	Wall       time.Duration
	Out        string
	CmdLine    string
}

type TLCOpts struct {
	Module                 string // e.g. MC_Builders (file spec/<Module>.tla)
	Cfg                    string // cfg file name in spec dir (default Module.cfg)
	Env                    map[string]string
	Workers                int
	Timeout                time.Duration
	Simulate               string // e.g. "num=1000" ; empty = BFS
	DepthArg               int
	Coverage               bool
	Seed                   int64
	DFS                    bool // StateDeque
	Cdot                   bool // enable action composition (\\cdot), used by trace specs with silent steps
	ContinueAfterViolation bool
}

var (
	reStates = regexp.MustCompile(`(\d+) states generated, (\d+) distinct states found`)
	reDepth  = regexp.MustCompile(`The depth of the complete state graph search is (\d+)`)
	reInv    = regexp.MustCompile(`Invariant (\S+) is violated`)
	reCov    = regexp.MustCompile(`^<(\w+) line \d+, col \d+ to line \d+, col \d+ of module (\w+)>: (\d+):(\d+)`)
)

// specWork makes a private copy of the spec directory so that TLC's litter
// (states/, *.tlacache, _TTrace_) never lands in /verif.
func (e *Env) specWork() (string, error) {
	dst := filepath.Join(e.Scratch, "spec")
	if _, err := os.Stat(dst); err == nil {
		return dst, nil
	}
	cmd := exec.Command("cp", "-a", filepath.Join(e.Verif, "spec"), dst)
	if out, err := cmd.CombinedOutput(); err != nil {
		return "", fmt.Errorf("copy spec: %v %s", err, out)
	}
	return dst, nil
}

func (e *Env) RunTLC(o TLCOpts) (*TLCResult, error) {
	dir, err := e.specWork()
	if err != nil {
		return nil, err
	}
	if o.Cfg == "" {
		o.Cfg = o.Module + ".cfg"
	}
	if o.Workers == 0 {
		o.Workers = 1
	}
	if o.Timeout == 0 {
		o.Timeout = 10 * time.Minute
	}
	meta, err := os.MkdirTemp(e.Scratch, "tlcmeta-")
	if err != nil {
		return nil, err
	}
	defer os.RemoveAll(meta)
	args := []string{"-XX:+UseParallelGC", "-Xss64m", "-cp", "/opt/veriftools/tla/tla2tools.jar:/opt/veriftools/tla/CommunityModules-deps.jar"}
	_ = args
	// (-maxSetSize: the file universe of MC_Filter at four lines is a set of 1.3 million functions)
	targs := []string{"-workers", strconv.Itoa(o.Workers), "-metadir", meta, "-config", o.Cfg, "-noGenerateSpecTE", "-maxSetSize", "8000000"}
	if o.Simulate != "" {
		targs = append(targs, "-simulate", o.Simulate)
		if o.DepthArg > 0 {
			targs = append(targs, "-depth", strconv.Itoa(o.DepthArg))
		}
		if o.Seed != 0 {
			targs = append(targs, "-seed", strconv.FormatInt(o.Seed, 10))
		}
	}
	if o.Coverage {
		targs = append(targs, "-coverage", "1")
	}
	if o.ContinueAfterViolation {
		targs = append(targs, "-continue")
	}
	targs = append(targs, o.Module+".tla")
	ctx, cancel := context.WithTimeout(context.Background(), o.Timeout)
	defer cancel()
	cmd := exec.CommandContext(ctx, "tlc", targs...)
	cmd.Dir = dir
	cmd.Env = os.Environ()
	// TLC unpacks its standard modules into a directory below java.io.tmpdir on every run and leaves it there:
	// keep that inside the scratch directory of this run (removed on exit)
	jto := "-Xss256m -Djava.io.tmpdir=" + meta
	if o.DFS {
		jto += " -Dtlc2.tool.queue.IStateQueue=StateDeque"
	}
	if o.Cdot {
		jto += " -Dtlc2.tool.impl.Tool.cdot=true"
	}
	cmd.Env = append(cmd.Env, "JAVA_TOOL_OPTIONS="+jto)
	for k, v := range o.Env {
		cmd.Env = append(cmd.Env, k+"="+v)
	}
	var out bytes.Buffer
	cmd.Stdout = &out
	cmd.Stderr = &out
	t0 := time.Now()
	runErr := cmd.Run()
	res := &TLCResult{Module: o.Module, Cfg: o.Cfg, Wall: time.Since(t0), Out: out.String(), Coverage: map[string]int{}}
	res.CmdLine = "tlc " + strings.Join(targs, " ")
	if ctx.Err() == context.DeadlineExceeded {
		res.TimedOut = true
	}
	sc := bufio.NewScanner(strings.NewReader(res.Out))
	sc.Buffer(make([]byte, 1<<20), 1<<28)
	for sc.Scan() {
		l := sc.Text()
		if m := reStates.FindStringSubmatch(l); m != nil {
			res.Generated, _ = strconv.Atoi(m[1])
			res.Distinct, _ = strconv.Atoi(m[2])
		}
		if m := reDepth.FindStringSubmatch(l); m != nil {
			res.Depth, _ = strconv.Atoi(m[1])
		}
		if m := reInv.FindStringSubmatch(l); m != nil && res.InvViol == "" {
			res.InvViol = m[1]
		}
		if strings.Contains(l, "No error has been found") {
			res.OK = true
		}
		if strings.Contains(l, "The postcondition") && strings.Contains(l, "false") || strings.Contains(l, "Evaluating assumption PostCondition failed") || strings.Contains(l, "postcondition") && strings.Contains(l, "violated") {
			res.PostFailed = true
		}
		if strings.HasPrefix(l, "Error:") && res.Err == "" {
			res.Err = l
		}
		if strings.HasPrefix(l, "\"") && strings.HasSuffix(l, "\"") && len(l) >= 2 {
			res.Prints = append(res.Prints, tlaUnquote(l))
		}
		if m := reCov.FindStringSubmatch(l); m != nil {
			n, _ := strconv.Atoi(m[3])
			res.Coverage[m[2]+"!"+m[1]] += n
		}
	}
	if runErr != nil && !res.TimedOut && res.Err == "" && res.InvViol == "" {
		res.Err = "tlc exit: " + runErr.Error()
	}
	if os.Getenv("VERIF_DEBUG") != "" {
		fmt.Fprintf(os.Stderr, "--- %s (%s) %v: gen=%d distinct=%d ok=%v inv=%q err=%q prints=%d\n", o.Module, o.Cfg, res.Wall, res.Generated, res.Distinct, res.OK, res.InvViol, res.Err, len(res.Prints))
		if !res.OK {
			fmt.Fprintln(os.Stderr, tail(res.Out, 3000))
		}
	}
	return res, nil
}

// tlaUnquote turns TLC's printed string literal back into the string.
func tlaUnquote(l string) string {
	s := l[1 : len(l)-1]
	var b strings.Builder
	for i := 0; i < len(s); i++ {
		if s[i] == '\\' && i+1 < len(s) {
			i++
			switch s[i] {
			case 'n':
				b.WriteByte('\n')
			case 't':
				b.WriteByte('\t')
			case 'r':
				b.WriteByte('\r')
			case 'f':
				b.WriteByte('\f')
			default:
				b.WriteByte(s[i])
			}
			continue
		}
		b.WriteByte(s[i])
	}
	return b.String()
}

// PrintsWithPrefix returns the payloads of PrintT lines "PFX payload".
func (r *TLCResult) PrintsWithPrefix(pfx string) []string {
	res := []string{}
	for _, p := range r.Prints {
		if strings.HasPrefix(p, pfx+" ") {
			res = append(res, strings.TrimPrefix(p, pfx+" "))
		} else if p == pfx {
			res = append(res, "")
		}
	}
	return res
}

// Healthy reports whether the run completed (no crash, timeout, parse error).
func (r *TLCResult) Healthy() bool {
	return r.OK && !r.TimedOut && r.Err == ""
}
