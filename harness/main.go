package main

import (
	"fmt"
	"os"
)

type checkFn func(e *Env, r *Report)

var checks = map[string]checkFn{}

func usage() {
	fmt.Fprintln(os.Stderr, "usage: vcheck <C01..C19> <quick|thorough> [--replay file] | vcheck dbg <cmd> ...")
	os.Exit(2)
}

func main() {
	if len(os.Args) < 3 {
		usage()
	}
	if os.Args[1] == "dbg" {
		os.Exit(debugMain(os.Args[2:]))
	}
	id, tier := os.Args[1], os.Args[2]
	if tier != "quick" && tier != "thorough" {
		usage()
	}
	fn, ok := checks[id]
	if !ok {
		fmt.Fprintln(os.Stderr, "unknown property", id)
		os.Exit(2)
	}
	e, err := NewEnv(tier)
	if err != nil {
		fmt.Fprintln(os.Stderr, err)
		os.Exit(2)
	}
	r := NewReport(id, e)
	code := 2
	func() {
		defer e.Cleanup()
		defer func() {
			if p := recover(); p != nil {
				r.Fatal = fmt.Sprint("harness panic: ", p)
				code = r.Finish()
			}
		}()
		for i := 3; i+1 < len(os.Args); i++ {
			if os.Args[i] == "--replay" {
				os.Setenv("VERIF_REPLAY", os.Args[i+1])
			}
		}
		fn(e, r)
		code = r.Finish()
	}()
	os.Exit(code)
}
