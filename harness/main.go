package main

import (
	"encoding/json"
	"fmt"
	"os"
	"runtime"
	"syscall"
	"time"
)

type checkFn func(e *Env, r *Report)

var checks = map[string]checkFn{}

func usage() {
	fmt.Fprintln(os.Stderr, "usage: vcheck <C01..C19> <quick|thorough> [--replay file] | vcheck dbg <cmd> ...")
	os.Exit(2)
}

func main() {
	if len(os.Args) < 3 {
		usage()
	}
	if os.Args[1] == "dbg" {
		os.Exit(debugMain(os.Args[2:]))
	}
	raiseFdLimit()
	id, tier := os.Args[1], os.Args[2]
	if tier != "quick" && tier != "thorough" {
		usage()
	}
	fn, ok := checks[id]
	if !ok {
		fmt.Fprintln(os.Stderr, "unknown property", id)
		os.Exit(2)
	}
	e, err := NewEnv(tier)
	if err != nil {
		fmt.Fprintln(os.Stderr, err)
		os.Exit(2)
	}
	r := NewReport(id, e)
	code := 2
	func() {
		defer e.Cleanup()
		defer func() {
			if p := recover(); p != nil {
				r.Fatal = fmt.Sprint("harness panic: ", p)
				code = r.Finish()
			}
		}()
		replayKey := ""
		for i := 3; i+1 < len(os.Args); i++ {
			if os.Args[i] == "--replay" {
				// a replay file names the violated key, the tier and the seed: the check regenerates its
				// inputs deterministically from them, runs the real code again, and reports that key only
				var rp struct {
					Key  string `json:"key"`
					Seed int64  `json:"seed"`
					Tier string `json:"tier"`
				}
				b, err := os.ReadFile(os.Args[i+1])
				if err != nil || json.Unmarshal(b, &rp) != nil || rp.Key == "" {
					fmt.Fprintln(os.Stderr, "unreadable replay file", os.Args[i+1])
					code = 2
					return
				}
				replayKey = rp.Key
				e.Seed = rp.Seed
				if rp.Tier == "quick" || rp.Tier == "thorough" {
					e.Tier = rp.Tier
				}
			}
		}
		fn(e, r)
		if replayKey != "" {
			kept := []Violation{}
			for _, v := range r.Viol {
				if v.Key == replayKey {
					kept = append(kept, v)
				}
			}
			r.Viol = kept
			r.NoEvidence = true
			if len(kept) == 0 && r.Fatal == "" {
				fmt.Printf("REPLAY property=%s key=%s not reproduced on the current tree\n", id, replayKey)
			}
		}
		code = r.Finish()
	}()
	os.Exit(code)
}

// fdBudget: how many files the code under test may leave open before the harness asks the runtime to collect
// them (pkg/logs opens its input and leaves closing to the finaliser; a thorough tier reads 100 000 files).
var fdBudget = 256

func raiseFdLimit() {
	var rl syscall.Rlimit
	if syscall.Getrlimit(syscall.RLIMIT_NOFILE, &rl) != nil {
		return
	}
	if rl.Cur < rl.Max {
		rl.Cur = rl.Max
		_ = syscall.Setrlimit(syscall.RLIMIT_NOFILE, &rl)
		_ = syscall.Getrlimit(syscall.RLIMIT_NOFILE, &rl)
	}
	if b := int(rl.Cur / 4); b > fdBudget {
		fdBudget = min(b, 8192)
	}
}

var leakedFds int

// noteLeakedFd is called after each use of an API of the code under test that leaves a file open.
func noteLeakedFd() {
	leakedFds++
	if leakedFds >= fdBudget {
		leakedFds = 0
		runtime.GC()
		time.Sleep(20 * time.Millisecond) // finalisers run in their own goroutine
	}
}
