package main

import (
	"encoding/json"
	"fmt"
	"os"
)

type checkFn func(e *Env, r *Report)

var checks = map[string]checkFn{}

func usage() {
	fmt.Fprintln(os.Stderr, "usage: vcheck <C01..C19> <quick|thorough> [--replay file] | vcheck dbg <cmd> ...")
	os.Exit(2)
}

func main() {
	if len(os.Args) < 3 {
		usage()
	}
	if os.Args[1] == "dbg" {
		os.Exit(debugMain(os.Args[2:]))
	}
	id, tier := os.Args[1], os.Args[2]
	if tier != "quick" && tier != "thorough" {
		usage()
	}
	fn, ok := checks[id]
	if !ok {
		fmt.Fprintln(os.Stderr, "unknown property", id)
		os.Exit(2)
	}
	e, err := NewEnv(tier)
	if err != nil {
		fmt.Fprintln(os.Stderr, err)
		os.Exit(2)
	}
	r := NewReport(id, e)
	code := 2
	func() {
		defer e.Cleanup()
		defer func() {
			if p := recover(); p != nil {
				r.Fatal = fmt.Sprint("harness panic: ", p)
				code = r.Finish()
			}
		}()
		replayKey := ""
		for i := 3; i+1 < len(os.Args); i++ {
			if os.Args[i] == "--replay" {
				// a replay file names the violated key, the tier and the seed: the check regenerates its
				// inputs deterministically from them, runs the real code again, and reports that key only
				var rp struct {
					Key  string `json:"key"`
					Seed int64  `json:"seed"`
					Tier string `json:"tier"`
				}
				b, err := os.ReadFile(os.Args[i+1])
				if err != nil || json.Unmarshal(b, &rp) != nil || rp.Key == "" {
					fmt.Fprintln(os.Stderr, "unreadable replay file", os.Args[i+1])
					code = 2
					return
				}
				replayKey = rp.Key
				e.Seed = rp.Seed
				if rp.Tier == "quick" || rp.Tier == "thorough" {
					e.Tier = rp.Tier
				}
			}
		}
		fn(e, r)
		if replayKey != "" {
			kept := []Violation{}
			for _, v := range r.Viol {
				if v.Key == replayKey {
					kept = append(kept, v)
				}
			}
			r.Viol = kept
			r.NoEvidence = true
			if len(kept) == 0 && r.Fatal == "" {
				fmt.Printf("REPLAY property=%s key=%s not reproduced on the current tree\n", id, replayKey)
			}
		}
		code = r.Finish()
	}()
	os.Exit(code)
}
