package main

// Character-level model of one log line (spec/LogLine.tla): MC_LogLine enumerates every
// value up to a bound, the harness writes the corresponding concrete kernel line, runs the
// REAL logs.New on it and LogLineTrace compares record, model decoding and real result.

import (
	"encoding/hex"
	"encoding/json"
	"fmt"
	"io"
	"math/rand"
	"os"
	"path/filepath"
	"regexp"
	"sort"
	"strings"
	"time"
	"unicode/utf8"

	"github.com/roddhjav/apparmor.d/pkg/logs"
)

// concrete text of the plain abstract characters
var lineChars = map[string]string{
	"a": "k", "s": " ", "q": `"`, "e": "=", "b": `\`, "x": "#", "u": "é", "t": "\t", "l": "\n", "G": "\xde",
	"D": "DE", "N": "12", "t2": "\x12",
	"name": "name", "pid": "pid", "comm": "comm", "profile": "profile", "info": "info",
	"op": "operation", "mask": "requested_mask", "fsuid": "fsuid",
}

// the punctuation class p: one of these per line (chosen by the line's number)
var linePunct = []string{"$", "%", "'", "$", "%", "'", ":", ",", "(", ")", "[", "]", "{", "}", "+", "-", ".", "*", "?", "@", "~", "&", ";", "<", ">", "|", "$", "!", "^", "`", "/"}

func concChar(c string, punct string) string {
	if c == "p" {
		return punct
	}
	if c == "%p" {
		return strings.ToUpper(hex.EncodeToString([]byte(punct)))
	}
	if strings.HasPrefix(c, "%") {
		return strings.ToUpper(hex.EncodeToString([]byte(lineChars[c[1:]])))
	}
	if v, ok := lineChars[c]; ok {
		return v
	}
	return "?"
}

func concLine(cs []string, n int) string { return concLineP(cs, n, 0) }

func concLineP(cs []string, n int, pk int) string {
	var b strings.Builder
	punct := linePunct[n%len(linePunct)]
	if pk > 0 {
		punct = linePunct[(pk-1)%len(linePunct)]
	}
	for _, c := range cs {
		b.WriteString(concChar(c, punct))
	}
	return b.String()
}

type lineTok struct{ text, abs string }

var lineToks = func() []lineTok {
	res := []lineTok{}
	for a, t := range lineChars {
		res = append(res, lineTok{t, a})
		if a != "G" && a != "t2" { // the encoding of G is D itself
			res = append(res, lineTok{strings.ToUpper(hex.EncodeToString([]byte(t))), "%" + a})
		}
	}
	for _, pc := range linePunct {
		res = append(res, lineTok{pc, "p"}, lineTok{strings.ToUpper(hex.EncodeToString([]byte(pc))), "%p"})
	}
	// the documented generalisation of digit runs in profile / name / target (six or eight digits) is read back
	res = append(res, lineTok{"@{int6}", "N N N"}, lineTok{"@{int8}", "N N N N"})
	// longest text first; ties broken by text then name for determinism
	sort.Slice(res, func(i, j int) bool {
		if len(res[i].text) != len(res[j].text) {
			return len(res[i].text) > len(res[j].text)
		}
		if res[i].text != res[j].text {
			return res[i].text < res[j].text
		}
		return res[i].abs < res[j].abs
	})
	return res
}()

// absText maps concrete text back to abstract characters (longest match; unknown bytes as ?xx).
func absText(s string) []string {
	res := []string{}
	for len(s) > 0 {
		hit := false
		for _, t := range lineToks {
			if strings.HasPrefix(s, t.text) {
				res = append(res, strings.Fields(t.abs)...)
				s = s[len(t.text):]
				hit = true
				break
			}
		}
		if !hit {
			res = append(res, fmt.Sprintf("?%02x", s[0]))
			s = s[1:]
		}
	}
	return res
}

type lineBeh struct {
	Punct int               `json:"-"` // 0: by line number; k > 0: linePunct[k-1]
	Mode  string            `json:"mode"`
	Rec   []json.RawMessage `json:"rec"`
	Line  []string          `json:"line"`
}

// lineModel runs the character-level family for one property (C15: valid records; C14: raw lines).
func lineModel(e *Env, r *Report, prop string) {
	strictLen, strictLen2, genLen, genLen2 := "3", "1", "3", "1"
	sample := 2500
	if e.Tier == "thorough" {
		strictLen, strictLen2, genLen2 = "4", "2", "2"
		sample = 0
	}
	// design level: the theorem Decode(Encode(r)) = r on the model, exhaustively
	st, err := e.RunTLC(TLCOpts{Module: "MC_LogLine", Cfg: "MC_LogLine_strict.cfg", Workers: 8, Timeout: 30 * time.Minute,
		Env: map[string]string{"VERIF_LINE_LEN": strictLen, "VERIF_LINE_LEN2": strictLen2}})
	if err != nil {
		r.Fatal = err.Error()
		return
	}
	r.AddTLC(st)
	if st.InvViol != "" {
		r.Drift = append(r.Drift, "LogLine model violates "+st.InvViol+" at design level (the model, not the code, is judged here)")
	} else if !st.Healthy() {
		r.Fatal = "MC_LogLine (strict) did not complete: " + st.Err
		return
	}
	r.Coverage["line_model_states"] = st.Distinct
	gen, err := e.RunTLC(TLCOpts{Module: "MC_LogLine", Workers: 4, Timeout: 30 * time.Minute,
		Env: map[string]string{"VERIF_LINE_LEN": genLen, "VERIF_LINE_LEN2": genLen2}})
	if err != nil {
		r.Fatal = err.Error()
		return
	}
	r.AddTLC(gen)
	if !gen.Healthy() {
		r.Fatal = "MC_LogLine did not complete: " + gen.Err
		return
	}
	for _, p := range gen.PrintsWithPrefix("LEADL") {
		r.Drift = append(r.Drift, "LogLine model decodes a record of the contract wrongly: "+tail(p, 300))
		break
	}
	behs := []lineBeh{}
	for _, p := range gen.PrintsWithPrefix("BEHL") {
		var b lineBeh
		if err := json.Unmarshal([]byte(p), &b); err != nil {
			r.Fatal = "bad BEHL: " + err.Error()
			return
		}
		if prop == "C15" && b.Mode == "raw" {
			continue
		}
		behs = append(behs, b)
	}
	if len(behs) == 0 {
		r.Fatal = "no line behaviours emitted"
		return
	}
	if prop == "C14" {
		// malformed tails (all of them) and a seeded sample of well-formed records: one event out per
		// record in, carrying nothing that is not in the input
		raw, valid := []lineBeh{}, []lineBeh{}
		for _, b := range behs {
			if b.Mode == "raw" {
				raw = append(raw, b)
			} else {
				valid = append(valid, b)
			}
		}
		rand.New(rand.NewSource(e.Seed+7)).Shuffle(len(valid), func(i, j int) { valid[i], valid[j] = valid[j], valid[i] })
		nv := 1200
		if e.Tier == "thorough" {
			nv = 12000
		}
		behs = append(raw, valid[:min(nv, len(valid))]...)
	}
	r.Coverage["line_behaviours"] = len(behs)
	if sample > 0 && len(behs) > sample {
		// short lines always, a seeded random sample of the long ones
		sort.SliceStable(behs, func(i, j int) bool { return len(behs[i].Line) < len(behs[j].Line) })
		keep := sample / 3
		rest := behs[keep:]
		rand.New(rand.NewSource(e.Seed)).Shuffle(len(rest), func(i, j int) { rest[i], rest[j] = rest[j], rest[i] })
		behs = append(behs[:keep], rest[:sample-keep]...)
	}
	// lines that hold the punctuation class are written once per character a cleaning expression or a
	// template / format function is likely to give a meaning to
	{
		special := []int{}
		for k, pc := range linePunct {
			if pc == "$" || pc == "%" || pc == "'" || pc == ":" || pc == "(" || pc == "*" {
				special = append(special, k+1)
			}
		}
		special = special[len(special)-6:] // the last occurrence of each (the list repeats $ % ')
		exp := []lineBeh{}
		for _, b := range behs {
			exp = append(exp, b)
			hasP := false
			for _, c := range b.Line {
				if c == "p" || c == "%p" {
					hasP = true
				}
			}
			if hasP && b.Mode != "raw" {
				for _, k := range special {
					c := b
					c.Punct = k
					exp = append(exp, c)
				}
			}
		}
		behs = exp
	}
	recs := []any{}
	routes := map[string]int{}
	one := func(i int, b lineBeh) map[string]any {
		text := fmt.Sprintf("type=AVC msg=audit(17000%05d.%03d:%d): apparmor=\"DENIED\" ", i%100000, i%1000, i) + concLineP(b.Line, i, b.Punct) + "\n"
		var got logs.AppArmorLogs
		crashed := false
		route := "file"
		func() {
			defer func() {
				if p := recover(); p != nil {
					crashed = true
				}
			}()
			var rd io.Reader = strings.NewReader(text)
			msg := strings.TrimSuffix(text, "\n")
			if i%6 == 3 && !strings.Contains(msg, "\n") {
				// a log with CR LF line ends (saved by a foreign editor, pasted from a report): the CR is not part of the record
				rd = strings.NewReader(msg + "\r\n")
				route = "file-crlf"
			}
			if !strings.Contains(msg, "\n") && i%3 != 0 {
				// through the journald carrier: a JSON string when the line is printable UTF-8 (and every
				// sixth time anyway), an array of bytes otherwise
				var jl []byte
				if i%3 == 1 && utf8.ValidString(msg) && !strings.ContainsAny(msg, "\t\x12\n") {
					jl, _ = json.Marshal(map[string]string{"MESSAGE": msg})
					route = "journald-string"
				} else {
					nums := make([]int, len(msg))
					for k := 0; k < len(msg); k++ {
						nums[k] = int(msg[k])
					}
					jl, _ = json.Marshal(map[string][]int{"MESSAGE": nums})
					route = "journald-bytes"
				}
				jp := filepath.Join(e.Scratch, fmt.Sprintf("jl-%s-%d.json", prop, i))
				_ = os.WriteFile(jp, append(jl, '\n'), 0o644)
				jr, err := logs.GetJournalctlLogs(jp, "", true)
				noteLeakedFd()
				_ = os.Remove(jp)
				if err != nil {
					jr = strings.NewReader("")
				}
				rd = jr
			}
			got = logs.New(rd, "")
		}()
		routes[route]++
		pairs := [][2][]string{}
		if !crashed && len(got) == 1 {
			keys := []string{}
			for k := range got[0] {
				if k != "apparmor" {
					keys = append(keys, k)
				}
			}
			sort.Strings(keys)
			for _, k := range keys {
				v := absText(got[0][k])
				pairs = append(pairs, [2][]string{absText(k), v})
			}
		}
		return map[string]any{"ev": "line", "p": prop, "id": b.Mode + "|" + strings.Join(b.Line, ""), "mode": b.Mode, "rec": b.Rec, "line": b.Line,
			"n": len(got), "crashed": crashed, "got": pairs, "log": text}
	}
	firstJSON := make([]string, len(behs))
	for i, b := range behs {
		rec := one(i, b)
		jb, _ := json.Marshal(rec)
		firstJSON[i] = string(jb)
		recs = append(recs, rec)
	}
	// second pass in the opposite order: the scanners keep package-level state (the quoted toggle), a
	// line must decode the same whatever came before it; only results that differ are added
	nHist := 0
	for i := len(behs) - 1; i >= 0; i-- {
		rec := one(i, behs[i])
		jb, _ := json.Marshal(rec)
		if string(jb) != firstJSON[i] {
			rec["id"] = fmt.Sprint(rec["id"]) + "|second pass, reverse order"
			recs = append(recs, rec)
			nHist++
		}
	}
	r.Coverage["line_results_depending_on_history"] = nHist
	if prop == "C15" {
		recs = append(recs, cliEvents(e, r, behs)...)
	}
	r.Coverage["line_runs"] = len(recs)
	for k, v := range routes {
		r.Coverage["line_route_"+k] = v
	}
	r.Sample(recs[len(recs)/2])
	tp := filepath.Join(e.Scratch, "logline-"+prop+".ndjson")
	if err := writeNDJSON(tp, recs); err != nil {
		r.Fatal = err.Error()
		return
	}
	tr, err := e.RunTLC(TLCOpts{Module: "LogLineTrace", Workers: 1, Timeout: 60 * time.Minute, Env: map[string]string{"VERIF_TRACE": tp}})
	if err != nil {
		r.Fatal = err.Error()
		return
	}
	r.AddTLC(tr)
	if !tr.Healthy() {
		r.Fatal = "LogLineTrace did not complete: " + tr.Err + tail(tr.Out, 1500)
		return
	}
	r.Traces += len(recs)
	nd := 0
	for _, p := range tr.PrintsWithPrefix("DRIFT") {
		if nd < 3 {
			r.Drift = append(r.Drift, tail(p, 400))
		}
		nd++
	}
	r.Coverage["line_model_vs_real_disagreements"] = nd
	for _, p := range tr.PrintsWithPrefix("VIOL") {
		var x struct {
			P    string          `json:"p"`
			ID   string          `json:"id"`
			What string          `json:"what"`
			D    json.RawMessage `json:"d"`
		}
		if err := json.Unmarshal([]byte(p), &x); err != nil {
			r.Fatal = "bad VIOL"
			return
		}
		if x.P != prop {
			continue
		}
		r.Violate(prop+"|line|"+x.ID+"|"+shortWhat(x.What), x.What, map[string]any{"id": x.ID, "detail": x.D})
	}
}

var reANSI = regexp.MustCompile("\x1b\\[[0-9;]*m")

// cliEvents sends a sample of the well-formed records through the real aa-log binary (default display).
func cliEvents(e *Env, r *Report, behs []lineBeh) []any {
	if err := e.BuildTools(); err != nil {
		r.Inconcl = append(r.Inconcl, "cli phase: "+err.Error())
		return nil
	}
	type rec struct {
		K string   `json:"k"`
		V []string `json:"v"`
	}
	type item struct {
		id   string
		vals map[string]string
	}
	items := []item{}
	var log strings.Builder
	seen := map[string]bool{}
	for i, b := range behs {
		if b.Mode == "raw" || len(items) >= 400 {
			continue
		}
		if i%3 != 0 && len(behs) > 1500 {
			continue
		}
		line := concLine(b.Line, i)
		if strings.ContainsAny(line, "\n") || seen[line] {
			continue
		}
		vals := map[string]string{}
		ok := true
		for _, raw := range b.Rec {
			var f rec
			if json.Unmarshal(raw, &f) != nil {
				ok = false
				break
			}
			key := lineChars[f.K]
			if key == "" || f.K == "pid" || f.K == "fsuid" {
				continue
			}
			v := concLine(f.V, i)
			if strings.ContainsAny(v, "\n\t\x12") || v == "" {
				ok = false // values the display cannot show on one line / does not print
				break
			}
			vals[key] = v
		}
		if !ok {
			continue
		}
		seen[line] = true
		fmt.Fprintf(&log, "type=AVC msg=audit(18000%05d.%03d:%d): apparmor=\"DENIED\" %s\n", len(items), len(items)%1000, len(items), line)
		items = append(items, item{b.Mode + "|" + strings.Join(b.Line, ""), vals})
	}
	if len(items) == 0 {
		return nil
	}
	p := filepath.Join(e.Scratch, "cli-lines.log")
	if err := os.WriteFile(p, []byte(log.String()), 0o644); err != nil {
		return nil
	}
	run := runAaLog(e, "-f", p)
	lines := []string{}
	for _, l := range strings.Split(run.Stdout, "\n") {
		if strings.TrimSpace(l) != "" {
			lines = append(lines, reANSI.ReplaceAllString(l, ""))
		}
	}
	res := []any{}
	if run.Exit != 0 || len(lines) != len(items) {
		res = append(res, map[string]any{"ev": "cli", "p": "C15", "id": "cli|all", "missing": []string{fmt.Sprintf("aa-log exit %d, %d lines for %d records", run.Exit, len(lines), len(items))}, "shown": ""})
		return res
	}
	for i, it := range items {
		missing := []string{}
		keys := []string{}
		for k := range it.vals {
			keys = append(keys, k)
		}
		sort.Strings(keys)
		for _, k := range keys {
			v := it.vals[k]
			shown := v
			if strings.Contains(v, " ") {
				shown = `"` + v + `"`
			}
			if !strings.Contains(lines[i], shown) {
				missing = append(missing, k+"="+v)
			}
		}
		res = append(res, map[string]any{"ev": "cli", "p": "C15", "id": "cli|" + it.id, "missing": missing, "shown": lines[i]})
	}
	r.Coverage["cli_records_displayed"] = len(items)
	return res
}
