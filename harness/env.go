package main

import (
	"bytes"
	"crypto/sha256"
	"encoding/hex"
	"encoding/json"
	"fmt"
	"os"
	"os/exec"
	"path/filepath"
	"sort"
	"strconv"
	"strings"
	"sync"
	"time"
)

// Env is one check invocation: scratch space, freshly built binaries, a private
// copy of the source data. Everything lives under Scratch and is removed on exit.
type Env struct {
	Repo     string
	Verif    string
	Scratch  string
	Src      string // copy of /repo's data directories (optionally augmented)
	Prebuild string // real binary, built -tags verif from Repo's working tree
	AaLog    string
	Seed     int64
	Tier     string
	Start    time.Time

	mu     sync.Mutex
	builds map[string]*Build
}

func getenv(k, d string) string {
	if v := os.Getenv(k); v != "" {
		return v
	}
	return d
}

func NewEnv(tier string) (*Env, error) {
	seed, _ := strconv.ParseInt(getenv("VERIF_SEED", "1"), 10, 64)
	e := &Env{
		Repo:   getenv("VERIF_REPO", "/repo"),
		Verif:  getenv("VERIF_ROOT", "/verif"),
		Seed:   seed,
		Tier:   tier,
		Start:  time.Now(),
		builds: map[string]*Build{},
	}
	base := getenv("VERIF_SCRATCH_BASE", os.TempDir())
	d, err := os.MkdirTemp(base, "vcheck-")
	if err != nil {
		return nil, err
	}
	e.Scratch = d
	return e, nil
}

func (e *Env) Cleanup() {
	if os.Getenv("VERIF_KEEP") != "" {
		fmt.Fprintln(os.Stderr, "scratch kept:", e.Scratch)
		return
	}
	_ = os.RemoveAll(e.Scratch)
}

func goEnv() []string {
	env := os.Environ()
	env = append(env, "GOFLAGS=-mod=mod", "GOPROXY=off", "GOSUMDB=off", "GOTOOLCHAIN=local")
	return env
}

// BuildTools compiles the real prebuild and aa-log binaries from Repo's working
// tree with the verif tag.
func (e *Env) BuildTools() error {
	bin := filepath.Join(e.Scratch, "bin")
	if err := os.MkdirAll(bin, 0o755); err != nil {
		return err
	}
	for _, t := range []string{"prebuild", "aa-log"} {
		cmd := exec.Command("go", "build", "-tags", "verif", "-o", filepath.Join(bin, t), "./cmd/"+t)
		cmd.Dir = e.Repo
		cmd.Env = goEnv()
		if out, err := cmd.CombinedOutput(); err != nil {
			return fmt.Errorf("go build %s: %v\n%s", t, err, out)
		}
	}
	e.Prebuild = filepath.Join(bin, "prebuild")
	e.AaLog = filepath.Join(bin, "aa-log")
	return nil
}

// CopySource copies the data directories prebuild reads into scratch.
func (e *Env) CopySource() error {
	e.Src = filepath.Join(e.Scratch, "src")
	if err := os.MkdirAll(e.Src, 0o755); err != nil {
		return err
	}
	for _, d := range []string{"apparmor.d", "share", "dists", "systemd", "debian", "tests"} {
		src := filepath.Join(e.Repo, d)
		if _, err := os.Stat(src); err != nil {
			continue
		}
		cmd := exec.Command("cp", "-a", src, filepath.Join(e.Src, d))
		if out, err := cmd.CombinedOutput(); err != nil {
			return fmt.Errorf("cp %s: %v %s", d, err, out)
		}
	}
	return nil
}

// ---------------------------------------------------------------- configurations

type Cfg struct {
	Dist string `json:"dist"`
	ABI  int    `json:"abi"`
	Ver  string `json:"ver"`
	Mode string `json:"mode"` // none | complain | enforce
	Full bool   `json:"full"`
}

var Dists = []string{"arch", "debian", "ubuntu", "opensuse", "whonix"}
var Vers = []string{"3.0", "4.0", "4.1"}
var Modes = []string{"none", "complain", "enforce"}

func FamilyOf(d string) string {
	switch d {
	case "arch":
		return "pacman"
	case "opensuse":
		return "zypper"
	default:
		return "apt"
	}
}

func (c Cfg) Key() string {
	f := "n"
	if c.Full {
		f = "f"
	}
	return fmt.Sprintf("%s-abi%d-v%s-%s-%s", c.Dist, c.ABI, c.Ver, c.Mode, f)
}

func (c Cfg) Args() []string {
	a := []string{"--abi", strconv.Itoa(c.ABI), "--version", c.Ver}
	switch c.Mode {
	case "complain":
		a = append(a, "--complain")
	case "enforce":
		a = append(a, "--enforce")
	}
	if c.Full {
		a = append(a, "--full")
	}
	return a
}

func AllCfgs() []Cfg {
	res := []Cfg{}
	for _, d := range Dists {
		for _, abi := range []int{3, 4} {
			for _, v := range Vers {
				for _, m := range Modes {
					for _, f := range []bool{false, true} {
						res = append(res, Cfg{d, abi, v, m, f})
					}
				}
			}
		}
	}
	return res
}

// DefaultCfg is what the project's own packaging builds for a distribution.
func DefaultCfg(d string) Cfg {
	switch d {
	case "arch", "opensuse":
		return Cfg{d, 4, "4.1", "complain", false}
	case "ubuntu":
		return Cfg{d, 4, "4.0", "complain", false}
	default:
		return Cfg{d, 3, "3.0", "complain", false}
	}
}

// ---------------------------------------------------------------- builds

type Build struct {
	Cfg    Cfg
	Dir    string // cwd of the run
	Out    string // Dir/.build
	Trace  string // ndjson hook events
	Stdout string
	Err    error
	Wall   time.Duration
}

type BuildOpts struct {
	Src     string   // source dir (default e.Src)
	Tag     string   // distinguishes builds of the same cfg
	Listing bool     // emit tree listings after each prepare task
	Extra   []string // extra CLI args
	PreRun  func(dir string) error
	NoCache bool
	// OSRelease: run WITHOUT $DISTRIBUTION, in a private mount namespace where this file is /etc/os-release
	// (the host auto-detection of pkg/prebuild/os.go); cfg.Dist is then not used
	OSRelease string
	EnvDist   string // with OSRelease: the value of $DISTRIBUTION, if any
}

// RunPrebuild runs the real prebuild binary for cfg in a fresh directory whose
// inputs are symlinks into the scratch copy of the source.
func (e *Env) RunPrebuild(cfg Cfg, o BuildOpts) *Build {
	key := cfg.Key() + "|" + o.Tag + "|" + o.Src + "|" + strings.Join(o.Extra, " ") + fmt.Sprint(o.Listing)
	if !o.NoCache {
		e.mu.Lock()
		if b, ok := e.builds[key]; ok {
			e.mu.Unlock()
			return b
		}
		e.mu.Unlock()
	}
	src := o.Src
	if src == "" {
		src = e.Src
	}
	b := &Build{Cfg: cfg}
	dir, err := os.MkdirTemp(e.Scratch, "b-"+cfg.Key()+"-")
	if err != nil {
		b.Err = err
		return b
	}
	b.Dir = dir
	b.Out = filepath.Join(dir, ".build")
	b.Trace = filepath.Join(dir, "trace.ndjson")
	for _, d := range []string{"apparmor.d", "share", "dists", "systemd"} {
		if err := os.Symlink(filepath.Join(src, d), filepath.Join(dir, d)); err != nil {
			b.Err = err
			return b
		}
	}
	_ = os.MkdirAll(filepath.Join(dir, "debian"), 0o755)
	if o.PreRun != nil {
		if err := o.PreRun(dir); err != nil {
			b.Err = err
			return b
		}
	}
	args := append(cfg.Args(), o.Extra...)
	cmd := exec.Command(e.Prebuild, args...)
	cmd.Dir = dir
	cmd.Env = append(os.Environ(), "DISTRIBUTION="+cfg.Dist, "VERIF_TRACE="+b.Trace)
	if o.OSRelease != "" {
		cmd = exec.Command("unshare", append([]string{"-m", "sh", "-c", `mount --bind "$VERIF_OSR" /etc/os-release && exec "$0" "$@"`, e.Prebuild}, args...)...)
		cmd.Dir = dir
		cmd.Env = []string{"VERIF_TRACE=" + b.Trace, "VERIF_OSR=" + o.OSRelease}
		for _, kv := range os.Environ() {
			if !strings.HasPrefix(kv, "DISTRIBUTION=") {
				cmd.Env = append(cmd.Env, kv)
			}
		}
		if o.EnvDist != "" {
			cmd.Env = append(cmd.Env, "DISTRIBUTION="+o.EnvDist)
		}
	}
	if o.Listing {
		cmd.Env = append(cmd.Env, "VERIF_LISTING=1")
	}
	var out bytes.Buffer
	cmd.Stdout = &out
	cmd.Stderr = &out
	t0 := time.Now()
	err = cmd.Run()
	b.Wall = time.Since(t0)
	b.Stdout = out.String()
	if err != nil {
		b.Err = fmt.Errorf("prebuild %v: %v\n%s", args, err, tail(b.Stdout, 2000))
	}
	if !o.NoCache {
		e.mu.Lock()
		e.builds[key] = b
		e.mu.Unlock()
	}
	return b
}

// Drop removes a build's directory (disk hygiene for the big matrix).
func (b *Build) Drop() {
	if b.Dir != "" {
		_ = os.RemoveAll(b.Dir)
	}
}

func tail(s string, n int) string {
	if len(s) <= n {
		return s
	}
	return s[len(s)-n:]
}

// parallel runs f over 0..n-1 with at most w goroutines.
func parallel(n, w int, f func(i int)) {
	if w < 1 {
		w = 1
	}
	var wg sync.WaitGroup
	ch := make(chan int)
	for k := 0; k < w; k++ {
		wg.Add(1)
		go func() {
			defer wg.Done()
			for i := range ch {
				f(i)
			}
		}()
	}
	for i := 0; i < n; i++ {
		ch <- i
	}
	close(ch)
	wg.Wait()
}

// ---------------------------------------------------------------- small helpers

func sha(b []byte) string {
	h := sha256.Sum256(b)
	return hex.EncodeToString(h[:])
}

func shaS(s string) string { return sha([]byte(s))[:16] }

// listFiles returns the regular files and symlinks below root, relative, sorted.
func listFiles(root string) []string {
	res := []string{}
	_ = filepath.Walk(root, func(p string, info os.FileInfo, err error) error {
		if err != nil || info.IsDir() {
			return nil
		}
		rel, _ := filepath.Rel(root, p)
		res = append(res, rel)
		return nil
	})
	sort.Strings(res)
	return res
}

func readEvents(path string) ([]map[string]any, error) {
	data, err := os.ReadFile(path)
	if err != nil {
		return nil, err
	}
	res := []map[string]any{}
	for _, l := range bytes.Split(data, []byte("\n")) {
		if len(bytes.TrimSpace(l)) == 0 {
			continue
		}
		m := map[string]any{}
		if err := json.Unmarshal(l, &m); err != nil {
			return nil, fmt.Errorf("bad trace line: %v", err)
		}
		res = append(res, m)
	}
	return res, nil
}

func writeNDJSON(path string, recs []any) error {
	f, err := os.Create(path)
	if err != nil {
		return err
	}
	defer f.Close()
	enc := json.NewEncoder(f)
	enc.SetEscapeHTML(false)
	for _, r := range recs {
		if err := enc.Encode(r); err != nil {
			return err
		}
	}
	return nil
}

func str(v any) string {
	if s, ok := v.(string); ok {
		return s
	}
	return ""
}
