package main

import (
	"encoding/json"
	"fmt"
	"os"
	"path/filepath"
	"sort"
	"strings"
	"time"
)

// Violation is one failure of a property's invariant on REAL output.
type Violation struct {
	Key    string `json:"key"`  // specific, stable identification (matched against known_findings.json)
	What   string `json:"what"` // human readable
	Replay any    `json:"replay,omitempty"`
}

type Finding struct {
	Property string `json:"property"`
	Status   string `json:"status"` // open | fixed
	Key      string `json:"key"`    // exact key, or prefix ending in '*'
	What     string `json:"what"`
	Commit   string `json:"commit,omitempty"`
}

type Report struct {
	ID       string
	Level    string
	Env      *Env
	Viol     []Violation
	Coverage map[string]any
	Assume   []string
	Samples  []any
	States   int
	Trans    int
	Traces   int
	Drift    []string
	Inconcl  []string
	Fatal    string // the check could not run (exit 2)

	NoEvidence bool // replay runs do not rewrite the evidence file
}

func NewReport(id string, e *Env) *Report {
	return &Report{ID: id, Env: e, Level: "model_checking", Coverage: map[string]any{}, Assume: []string{
		"TLC evaluates the specification's properties faithfully",
		"the independent scanner (harness/scan.go) projects policy text to abstract items correctly",
	}, Drift: []string{}, Inconcl: []string{}}
}

func (r *Report) AddTLC(t *TLCResult) {
	if t == nil {
		return
	}
	r.States += t.Distinct
	r.Trans += t.Generated
	runs, _ := r.Coverage["tlc_runs"].([]any)
	runs = append(runs, map[string]any{"module": t.Module, "cfg": t.Cfg, "generated": t.Generated, "distinct": t.Distinct, "depth": t.Depth, "ok": t.OK, "wall_s": t.Wall.Seconds()})
	r.Coverage["tlc_runs"] = runs
}

func (r *Report) Sample(s any) {
	if len(r.Samples) < 6 {
		r.Samples = append(r.Samples, s)
	}
}

func (r *Report) Violate(key, what string, replay any) {
	for _, v := range r.Viol {
		if v.Key == key {
			return
		}
	}
	r.Viol = append(r.Viol, Violation{key, what, replay})
}

func loadFindings(verif string) []Finding {
	res := []Finding{}
	b, err := os.ReadFile(filepath.Join(verif, "known_findings.json"))
	if err != nil {
		return res
	}
	var doc struct {
		Findings []Finding `json:"findings"`
	}
	if err := json.Unmarshal(b, &doc); err != nil {
		fmt.Fprintln(os.Stderr, "known_findings.json unreadable:", err)
		return res
	}
	return doc.Findings
}

func matchFinding(f Finding, id, key string) bool {
	if f.Property != id || f.Status != "open" {
		return false
	}
	if strings.HasSuffix(f.Key, "*") {
		return strings.HasPrefix(key, strings.TrimSuffix(f.Key, "*"))
	}
	return f.Key == key
}

// Finish prints KNOWN-FINDING / VIOLATION lines, writes evidence and replay
// files, and returns the process exit code.
func (r *Report) Finish() int {
	e := r.Env
	evdir := filepath.Join(e.Verif, "evidence")
	_ = os.MkdirAll(filepath.Join(evdir, "replay"), 0o755)
	if r.Fatal != "" {
		fmt.Printf("INCONCLUSIVE property=%s %s\n", r.ID, r.Fatal)
		r.Inconcl = append(r.Inconcl, r.Fatal)
	}
	findings := loadFindings(e.Verif)
	sort.Slice(r.Viol, func(i, j int) bool { return r.Viol[i].Key < r.Viol[j].Key })
	known := map[string][]string{}
	fresh := []Violation{}
	for _, v := range r.Viol {
		hit := false
		for _, f := range findings {
			if matchFinding(f, r.ID, v.Key) {
				known[f.Key] = append(known[f.Key], v.Key)
				hit = true
				break
			}
		}
		if !hit {
			fresh = append(fresh, v)
		}
	}
	kk := []string{}
	for k := range known {
		kk = append(kk, k)
	}
	sort.Strings(kk)
	for _, k := range kk {
		what := ""
		for _, f := range findings {
			if f.Property == r.ID && f.Key == k {
				what = f.What
			}
		}
		fmt.Printf("KNOWN-FINDING: property=%s key=%s (%d hit) %s\n", r.ID, k, len(known[k]), what)
	}
	if kp := os.Getenv("VERIF_ALLKEYS"); kp != "" {
		var sb strings.Builder
		for _, v := range fresh {
			sb.WriteString(v.Key + "\n")
		}
		_ = os.WriteFile(kp, []byte(sb.String()), 0o644)
	}
	// remove stale replay files of this property
	old, _ := filepath.Glob(filepath.Join(evdir, "replay", r.ID+"-*.json"))
	for _, o := range old {
		if !r.NoEvidence {
			_ = os.Remove(o)
		}
	}
	for i, v := range fresh {
		p := filepath.Join(evdir, "replay", fmt.Sprintf("%s-%03d.json", r.ID, i+1))
		if r.NoEvidence {
			p = filepath.Join(evdir, "replay", fmt.Sprintf("%s-replayed-%03d.json", r.ID, i+1))
		}
		if i < 50 {
			b, _ := json.MarshalIndent(map[string]any{"property": r.ID, "key": v.Key, "what": v.What, "replay": v.Replay, "seed": e.Seed, "tier": e.Tier}, "", " ")
			_ = os.WriteFile(p, b, 0o644)
		}
		if i < 200 {
			fmt.Printf("VIOLATION property=%s replay=%s key=%s %s\n", r.ID, p, v.Key, v.What)
		}
	}
	if len(fresh) > 200 {
		fmt.Printf("... and %d more violations of %s\n", len(fresh)-200, r.ID)
	}
	for _, d := range r.Drift {
		fmt.Printf("DRIFT property=%s %s\n", r.ID, d)
	}

	cov := r.Coverage
	cov["states"] = r.States
	cov["transitions"] = r.Trans
	cov["traces_validated_against_impl"] = r.Traces
	if len(r.Samples) == 0 {
		r.Samples = []any{"(no sample recorded)"}
	}
	cov["samples"] = r.Samples
	cov["known_findings_hit"] = kk
	cov["drift"] = r.Drift
	cov["inconclusive"] = r.Inconcl
	ev := map[string]any{
		"property_id": r.ID,
		"tier":        e.Tier,
		"seed":        e.Seed,
		"level":       r.Level,
		"coverage":    cov,
		"assumptions": r.Assume,
		"wall_s":      time.Since(e.Start).Seconds(),
		"violations":  len(fresh),
	}
	if !r.NoEvidence {
		b, _ := json.MarshalIndent(ev, "", " ")
		_ = os.WriteFile(filepath.Join(evdir, r.ID+".json"), b, 0o644)
	}

	switch {
	case len(fresh) > 0:
		return 1
	case r.Fatal != "":
		return 2
	default:
		fmt.Printf("OK property=%s tier=%s states=%d traces=%d known=%d wall=%.1fs\n", r.ID, e.Tier, r.States, r.Traces, len(kk), time.Since(e.Start).Seconds())
		return 0
	}
}
