package main

// Independent AARE (AppArmor regular expression) matcher: patterns are translated to
// Go regular expressions, variables are taken from the reference parser's own
// expansion of the shipped tunables (apparmor_parser -D expanded-variables).

import (
	"fmt"
	"os"
	"os/exec"
	"path/filepath"
	"regexp"
	"strings"
	"sync"
	"unicode/utf8"
)

type aareEnv struct {
	vars map[string][]string
	mu   sync.Mutex
	memo map[string]*regexp.Regexp
}

var reVarLine = regexp.MustCompile(`^@(\S+) = (.*)$`)
var reQuoted = regexp.MustCompile(`"([^"]*)"`)

// loadTunables asks the reference parser for the expanded variables of the tunables of a build.
// tunablesOverlay: upstream policy directory with the tunables of a build on top (kept until cleanup).
func tunablesOverlay(e *Env, buildOut string) (string, error) {
	ov, err := os.MkdirTemp(e.Scratch, "tun-")
	if err != nil {
		return "", err
	}
	if out, err := execCmd("cp", "-a", "/etc/apparmor.d/.", ov); err != nil {
		return "", fmt.Errorf("%v %s", err, out)
	}
	if out, err := execCmd("cp", "-a", filepath.Join(buildOut, "apparmor.d", "tunables"), ov); err != nil {
		return "", fmt.Errorf("%v %s", err, out)
	}
	return ov, normaliseTunables(ov)
}

func normaliseTunables(ov string) error {
	// ABI 4 tunables are read by the 3.0 parser after the same normalisation as C01
	_ = filepath.Walk(filepath.Join(ov, "tunables"), func(p string, info os.FileInfo, err error) error {
		if err == nil && info.Mode().IsRegular() {
			if t, e2 := os.ReadFile(p); e2 == nil {
				_ = os.WriteFile(p, []byte(normaliseABI4(string(t))), 0o644)
			}
		}
		return nil
	})
	return nil
}

func loadTunables(e *Env, buildOut string) (*aareEnv, error) {
	ov, err := tunablesOverlay(e, buildOut)
	if err != nil {
		return nil, err
	}
	defer os.RemoveAll(ov)
	stub := filepath.Join(ov, "vstub")
	_ = os.WriteFile(stub, []byte("abi <abi/3.0>,\ninclude <tunables/global>\nprofile vstub /vstub {\n}\n"), 0o644)
	cmd := exec.Command("/usr/sbin/apparmor_parser", "-Q", "-K", "-D", "expanded-variables", "-b", ov, "-I", ov, stub)
	cmd.Dir = ov
	out, err := cmd.CombinedOutput()
	if err != nil {
		return nil, fmt.Errorf("reference parser could not expand the shipped tunables: %v %s", err, tail(string(out), 400))
	}
	env := &aareEnv{vars: map[string][]string{}, memo: map[string]*regexp.Regexp{}}
	for _, l := range strings.Split(string(out), "\n") {
		if m := reVarLine.FindStringSubmatch(l); m != nil {
			vals := []string{}
			for _, q := range reQuoted.FindAllStringSubmatch(m[2], -1) {
				vals = append(vals, q[1])
			}
			env.vars[m[1]] = vals
		}
	}
	if len(env.vars) < 20 {
		return nil, fmt.Errorf("only %d variables read from the reference parser", len(env.vars))
	}
	return env, nil
}

// globToRe translates one AARE (which may use variables) into regular expression source.
func (env *aareEnv) globToRe(p string, depth int) (string, error) {
	if depth > 12 {
		return "", fmt.Errorf("variable nesting too deep")
	}
	var b strings.Builder
	i := 0
	for i < len(p) {
		c := p[i]
		switch {
		case c == '\\' && i+1 < len(p):
			_, n := utf8.DecodeRuneInString(p[i+1:])
			b.WriteString(regexp.QuoteMeta(p[i+1 : i+1+n]))
			i += 1 + n
		case c == '*':
			if i+1 < len(p) && p[i+1] == '*' {
				b.WriteString(".*")
				i += 2
			} else {
				b.WriteString("[^/]*")
				i++
			}
		case c == '?':
			b.WriteString("[^/]")
			i++
		case c == '[':
			j := strings.IndexByte(p[i+1:], ']')
			if j < 0 {
				b.WriteString(`\[`)
				i++
				break
			}
			cls := p[i+1 : i+1+j]
			// tolerate the stray '[' of shipped tunables such as [1-9][[0-9]
			cls = strings.ReplaceAll(cls, "[", `\[`)
			b.WriteString("[" + cls + "]")
			i += j + 2
		case c == '{':
			b.WriteString("(?:")
			i++
		case c == '}':
			b.WriteString(")")
			i++
		case c == ',':
			// a comma separates alternatives only inside braces; count open groups
			if openGroups(b.String()) > 0 {
				b.WriteString("|")
			} else {
				b.WriteString(",")
			}
			i++
		default:
			// a whole character (a byte of a multi-byte character is not a character of its own)
			_, n := utf8.DecodeRuneInString(p[i:])
			b.WriteString(regexp.QuoteMeta(p[i : i+n]))
			i += n
		}
	}
	return b.String(), nil
}

// expandVars substitutes every @{var} by each of its (already expanded) values.
func (env *aareEnv) expandVars(p string, depth int) ([]string, error) {
	i := strings.Index(p, "@{")
	if i < 0 {
		return []string{p}, nil
	}
	if depth > 24 {
		return nil, fmt.Errorf("too many variables in %q", p)
	}
	j := strings.IndexByte(p[i:], '}')
	if j < 0 {
		return nil, fmt.Errorf("unterminated variable in %q", p)
	}
	name := p[i+2 : i+j]
	vals, ok := env.vars[name]
	if !ok {
		return nil, fmt.Errorf("undefined variable @{%s}", name)
	}
	res := []string{}
	for _, v := range vals {
		// a quoted value stands for the text between its quotes
		if len(v) > 1 && strings.HasPrefix(v, "\"") && strings.HasSuffix(v, "\"") {
			v = v[1 : len(v)-1]
		}
		rest, err := env.expandVars(p[:i]+v+p[i+j+1:], depth+1)
		if err != nil {
			return nil, err
		}
		res = append(res, rest...)
		if len(res) > 4096 {
			return nil, fmt.Errorf("expansion of %q too large", p)
		}
	}
	return res, nil
}

func openGroups(s string) int {
	n := 0
	for i := 0; i < len(s); i++ {
		switch s[i] {
		case '\\':
			i++
		case '[':
			j := strings.IndexByte(s[i:], ']')
			if j > 0 {
				i += j
			}
		case '(':
			n++
		case ')':
			n--
		}
	}
	return n
}

var reSlashes = regexp.MustCompile(`/+`)

// Compile returns the anchored matcher of a pattern (repeated slashes collapsed on both sides).
func (env *aareEnv) Compile(pattern string) (*regexp.Regexp, error) {
	pattern = strings.Trim(pattern, "\"")
	env.mu.Lock()
	if re, ok := env.memo[pattern]; ok {
		env.mu.Unlock()
		return re, nil
	}
	env.mu.Unlock()
	exps, err := env.expandVars(pattern, 0)
	if err != nil {
		return nil, err
	}
	alts := []string{}
	for _, x := range exps {
		// repeated slashes come from concatenating values ("/home/" + "/*/"): AppArmor reads them as one
		s, err := env.globToRe(reSlashes.ReplaceAllString(x, "/"), 0)
		if err != nil {
			return nil, err
		}
		alts = append(alts, s)
	}
	re, err := regexp.Compile("^(?:" + strings.Join(alts, "|") + ")$")
	if err != nil {
		return nil, fmt.Errorf("pattern %q: %v", pattern, err)
	}
	env.mu.Lock()
	env.memo[pattern] = re
	env.mu.Unlock()
	return re, nil
}

// Covers reports whether the pattern matches the concrete path.
func (env *aareEnv) Covers(pattern, path string) (bool, error) {
	re, err := env.Compile(pattern)
	if err != nil {
		return false, err
	}
	return re.MatchString(reSlashes.ReplaceAllString(path, "/")), nil
}
