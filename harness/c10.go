package main

// C10 (merge preserves facts) and C11 (comparison is a consistent total preorder):
// Rules.tla / MC_Rules / RulesTrace.tla. Real rules are built from text by the real
// parser, abstracted by reflection over the exported struct fields, and the real
// Rules.Merge / Rule.Compare / Rules.Sort are run on them.

import (
	"encoding/json"
	"fmt"
	"math/rand"
	"os"
	"path/filepath"
	"reflect"
	"slices"
	"sort"
	"strings"
	"time"

	"github.com/roddhjav/apparmor.d/pkg/aa"
)

func init() {
	checks["C10"] = checkC10
	checks["C11"] = checkC11
}

type absRule struct {
	K string     `json:"k"`
	Q string     `json:"q"`
	S string     `json:"s"`
	D [][]string `json:"d"`
}

// abstractRule reads a rule's exported fields by reflection: value lists become the
// permission dimensions, every other field the subject. Base (comment, padding) is skipped.
func abstractRule(r aa.Rule) absRule {
	a := absRule{K: string(r.Kind()), D: [][]string{}}
	var subj []string
	var walk func(v reflect.Value, prefix string)
	walk = func(v reflect.Value, prefix string) {
		t := v.Type()
		for i := 0; i < v.NumField(); i++ {
			f := t.Field(i)
			fv := v.Field(i)
			if !f.IsExported() {
				continue
			}
			switch {
			case f.Name == "Base" && f.Anonymous:
				continue
			case f.Name == "Qualifier" && f.Anonymous:
				q := fv.Interface().(aa.Qualifier)
				if q.Audit {
					a.Q = "audit "
				}
				if q.AccessType != "allow" { // allow is the default access type written out: the same facts
					a.Q += q.AccessType
				}
			case fv.Kind() == reflect.Struct:
				walk(fv, prefix+f.Name+".")
			case fv.Kind() == reflect.Slice && fv.Type().Elem().Kind() == reflect.String:
				vals := []string{}
				for k := 0; k < fv.Len(); k++ {
					if s := fv.Index(k).String(); s != "" {
						vals = append(vals, s)
					}
				}
				sort.Strings(vals)
				a.D = append(a.D, vals)
			case fv.Kind() == reflect.Slice: // nested rules (profile / hat bodies)
				subj = append(subj, fmt.Sprintf("%s%s=#%d", prefix, f.Name, fv.Len()))
			case fv.Kind() == reflect.Map:
				keys := []string{}
				for _, k := range fv.MapKeys() {
					keys = append(keys, fmt.Sprintf("%v=%v", k, fv.MapIndex(k)))
				}
				sort.Strings(keys)
				subj = append(subj, prefix+f.Name+"={"+strings.Join(keys, ",")+"}")
			default:
				subj = append(subj, fmt.Sprintf("%s%s=%v", prefix, f.Name, fv.Interface()))
			}
		}
	}
	v := reflect.ValueOf(r)
	if v.Kind() == reflect.Ptr {
		v = v.Elem()
	}
	walk(v, "")
	a.S = strings.Join(subj, ";")
	return a
}

func abstractRules(rs aa.Rules) []absRule {
	res := []absRule{}
	for _, r := range rs {
		if r == nil {
			continue
		}
		res = append(res, abstractRule(r))
	}
	return res
}

// parseRuleTexts builds real rules from rule text with the real parser.
func parseRuleTexts(texts []string) (aa.Rules, error) {
	res := aa.Rules{}
	for _, t := range texts {
		pr, _, err := aa.ParseRules("  " + t + "\n\n")
		if err != nil {
			return nil, fmt.Errorf("%q: %v", t, err)
		}
		rs := pr.Flatten()
		if len(rs) != 1 {
			return nil, fmt.Errorf("%q parsed into %d rules", t, len(rs))
		}
		res = append(res, rs[0])
	}
	return res, nil
}

func cloneRules(texts []string) aa.Rules {
	rs, err := parseRuleTexts(texts)
	if err != nil {
		panic(err)
	}
	return rs
}

// the abstract menu of MC_Rules, instantiated
var mcMenuTexts = []string{
	"/a r,", "/a w,", "/b r,", "deny /a r,",
	"signal send set=hup peer=p,", "signal receive set=hup peer=p,", "signal send set=int peer=p,", "signal receive set=int peer=p,",
	"signal send peer=p,", "capability chown,",
}

// near-duplicate menus per kind: neighbours differ in exactly one thing
var kindMenus = map[string][]string{
	"file": {"/foo rwk,", "/foo m,", "/srv/b rwk,", "@{bin}/foo mrix,", "/etc/a mrix,", "/foo r,", "/Foo r,", "/foo w,", "/foo rw,", "owner /foo r,", "audit /foo r,", "deny /foo r,", "allow /foo w,", "audit allow /foo r,", "audit allow /foo w,", "audit /foo w,", "/foo r, # note", "/foé r,", "/foè r,",
		"@{bin}/foo r,", "@{bin}/foo rix,", "@{bin}/foo rPx -> t1,", "@{bin}/foo rPx -> t2,", "/srv/a r,", "/srv/b r,", "/etc/a r,", "@{HOME}/a r,", "/a r,", "/z r,",
		"\"/etc/a\" r,", "\"/srv/a\" r,", "\"/srv/a b\" r,", "/foo/ w,", "/foo//x r,", "/foo/x w,", "/dev/tty01 rw,", "/dev/tty1 rw,", "/dev/tty001 rw,", "/dev/tty10 rw,", "/dev/tty2 rw,",
		"/srv/ΛΉΨΕΙΣ/ r,", "/srv/λήψεις/ r,", "/srv/λήψεις/** r,", "/srv/ſ r,", "/srv/s r,", "/srv/S r,", "/srv/µ r,", "/srv/μ r,", "/srv/İ r,", "/srv/i r,", "/dev/shm/a rw,", "/dev/a rw,", "@{run}/a r,", "/tmp/a r,", "@{lib}/a mr,", "/opt/a r,", "/usr/share/a r,", "/var/a r,"},
	"link":           {"link /a -> /b,", "link /a -> /c,", "link subset /a -> /b,", "owner link /a -> /b,", "deny link /a -> /b,", "link /A -> /b,"},
	"capability":     {"capability chown,", "capability kill,", "capability chown kill,", "audit capability chown,", "deny capability chown,", "capability,", "allow capability kill,", "audit allow capability chown,"},
	"network":        {"network inet stream,", "network inet dgram,", "network inet6 stream,", "network netlink raw,", "deny network inet stream,", "audit network inet stream,", "network inet,", "allow network inet stream,", "audit allow network inet dgram,"},
	"mount":          {"mount /a -> /b,", "mount /a -> /c,", "mount options=(ro) /a -> /b,", "mount options=(rw) /a -> /b,", "mount fstype=ext4 /a -> /b,", "mount options=(ro) fstype=ext4 /a -> /b,", "deny mount /a -> /b,", "mount -> /b,", "allow mount options=(rw) /a -> /b,", "audit allow mount options=(ro) /a -> /b,"},
	"umount":         {"umount /a,", "umount /b,", "deny umount /a,", "audit umount /a,", "allow umount /a,"},
	"remount":        {"remount /a,", "remount /b,", "remount options=(ro) /a,", "deny remount /a,"},
	"pivot_root":     {"pivot_root oldroot=/a /b,", "pivot_root oldroot=/a /c,", "pivot_root oldroot=/a /b -> p,", "pivot_root /b,"},
	"change_profile": {"change_profile -> a,", "change_profile -> b,", "change_profile /x -> a,", "change_profile unsafe /x -> a,", "deny change_profile -> a,"},
	"signal":         {"signal send set=hup peer=p,", "signal receive set=hup peer=p,", "signal send set=int peer=p,", "signal (send receive) set=hup peer=p,", "signal send set=(hup int) peer=p,", "signal send peer=p,", "signal send set=hup peer=q,", "signal send set=hup,", "deny signal send set=hup peer=p,", "signal,", "allow signal send set=int peer=p,", "audit allow signal send set=hup peer=p,"},
	"ptrace":         {"ptrace read peer=p,", "ptrace trace peer=p,", "ptrace read peer=q,", "ptrace (read trace) peer=p,", "ptrace peer=p,", "deny ptrace read peer=p,", "ptrace read,", "allow ptrace trace peer=p,", "audit allow ptrace read peer=p,"},
	"unix":           {"unix send type=stream,", "unix receive type=stream,", "unix send type=dgram,", "unix send type=stream addr=@a,", "unix send type=stream addr=none,", "unix receive type=stream addr=none,", "unix send type=stream peer=(label=l, addr=none),", "unix send type=stream peer=(label=l),", "unix send type=stream peer=(label=m),", "unix send type=stream peer=(addr=@b),", "deny unix send type=stream,", "unix,"},
	"dbus":           {"dbus send bus=session path=/a interface=i member=m peer=(name=n label=l),", "dbus receive bus=session path=/a interface=i member=m peer=(name=n label=l),", "dbus send bus=system path=/a interface=i member=m peer=(name=n label=l),", "dbus send bus=session path=/b interface=i member=m peer=(name=n label=l),", "dbus send bus=session path=/a interface=j member=m peer=(name=n label=l),", "dbus send bus=session path=/a interface=i member=k peer=(name=n label=l),", "dbus send bus=session path=/a interface=i member=m peer=(name=o label=l),", "dbus send bus=session path=/a interface=i member=m peer=(name=n label=q),", "dbus bind bus=session name=n,", "dbus bind bus=session name=o,", "deny dbus send bus=session path=/a interface=i member=m peer=(name=n label=l),"},
	"rlimit":         {"set rlimit nofile <= 10,", "set rlimit nofile <= 20,", "set rlimit nproc <= 10,"},
	"mqueue":         {"mqueue r type=posix /a,", "mqueue r type=posix /b,", "mqueue w type=posix /a,", "mqueue r type=sysv 1,", "mqueue r type=posix label=l /a,", "deny mqueue r type=posix /a,"},
	"io_uring":       {"io_uring sqpoll label=a,", "io_uring override_creds label=a,", "io_uring sqpoll label=b,", "deny io_uring sqpoll label=a,", "io_uring sqpoll,"},
	"userns":         {"userns,", "deny userns,", "audit userns,"},
	"all":            {"all,", "deny all,", "audit all,"},
	"include":        {"include <abstractions/base>", "include <abstractions/base-strict>", "include <abstractions/base.d/extra>", "include <abstractions/a>", "include <abstractions/b>", "include if exists <abstractions/a>", "include if exists <local/z>", "include \"/etc/x\""},
}

func kindsSorted() []string {
	ks := []string{}
	for k := range kindMenus {
		ks = append(ks, k)
	}
	sort.Strings(ks)
	return ks
}

func runRulesTrace(e *Env, r *Report, recs []any, prop string) {
	tp := filepath.Join(e.Scratch, "rules-"+prop+".ndjson")
	if err := writeNDJSON(tp, recs); err != nil {
		r.Fatal = err.Error()
		return
	}
	tr, err := e.RunTLC(TLCOpts{Module: "RulesTrace", Workers: 1, Timeout: 40 * time.Minute, Env: map[string]string{"VERIF_TRACE": tp}})
	if err != nil {
		r.Fatal = err.Error()
		return
	}
	r.AddTLC(tr)
	if !tr.Healthy() {
		r.Fatal = "RulesTrace did not complete: " + tr.Err + tail(tr.Out, 1500)
		return
	}
	r.Traces += len(recs)
	for i, p := range tr.PrintsWithPrefix("DRIFT") {
		if i < 3 {
			r.Drift = append(r.Drift, tail(p, 500))
		}
	}
	for _, p := range tr.PrintsWithPrefix("VIOL") {
		var x struct {
			P    string          `json:"p"`
			ID   string          `json:"id"`
			What string          `json:"what"`
			D    json.RawMessage `json:"d"`
		}
		if err := json.Unmarshal([]byte(p), &x); err != nil {
			r.Fatal = "bad VIOL"
			return
		}
		if x.P != prop {
			continue
		}
		r.Violate(prop+"|"+x.ID+"|"+shortWhat(x.What), x.What, map[string]any{"id": x.ID, "detail": x.D})
	}
}

var (
	firstAbs      = map[string]string{}
	aliasReported = map[string]bool{}
	aliasEvents   = []any{}
)

func mustAbs(s string) absRule {
	var a absRule
	_ = json.Unmarshal([]byte(s), &a)
	return a
}

func mergeEvent(id string, texts []string) (rec map[string]any, err error) {
	defer func() {
		if p := recover(); p != nil {
			err = fmt.Errorf("panic in Merge of %v: %v", texts, p)
		}
	}()
	in, perr := parseRuleTexts(texts)
	if perr != nil {
		return nil, perr
	}
	inAbs := abstractRules(in)
	// a rule text must denote the same rule every time it is parsed: merges of OTHER lists
	// must not reach it through shared state (value lists handed out by reference)
	for i, t := range texts {
		b, _ := json.Marshal(inAbs[i])
		if first, ok := firstAbs[t]; !ok {
			firstAbs[t] = string(b)
		} else if first != string(b) && !aliasReported[t] {
			aliasReported[t] = true
			aliasEvents = append(aliasEvents, map[string]any{"ev": "merge", "id": "aliasing:" + t, "in": []absRule{mustAbs(first)}, "out": []absRule{inAbs[i]}, "out2": []absRule{inAbs[i]}, "texts": []string{t}})
		}
	}
	out := in.Merge()
	outAbs := abstractRules(out)
	out2 := out.Merge()
	out2Abs := abstractRules(out2)
	return map[string]any{"ev": "merge", "id": id, "in": inAbs, "out": outAbs, "out2": out2Abs, "texts": texts}, nil
}

// latticeLevels: per base level (every field absent / at its first / at its second value) the base vector followed
// by its single-field variants.
func latticeLevels(sc *kindSchema) [][][]int {
	skip := map[string]bool{"Comment": true, "FileInherit": true, "NoNewPrivs": true, "Optional": true}
	res := [][][]int{}
	for level := 0; level < 3; level++ {
		base := make([]int, len(sc.Fields))
		for i, fc := range sc.Fields {
			if !skip[fc.Field] {
				base[i] = min(level, len(fc.Choices)-1)
			}
		}
		vecs := [][]int{append([]int{}, base...)}
		seen := map[string]bool{fmt.Sprint(base): true}
		for i, fc := range sc.Fields {
			if skip[fc.Field] {
				continue
			}
			for c := range fc.Choices {
				v := append([]int{}, base...)
				v[i] = c
				if k := fmt.Sprint(v); !seen[k] {
					seen[k] = true
					vecs = append(vecs, v)
				}
			}
		}
		res = append(res, vecs)
	}
	return res
}

// structMergeEvent: Merge on rules built as structs (fresh ones: Merge works in place).
func structMergeEvent(id string, in aa.Rules) (rec map[string]any, err error) {
	defer func() {
		if p := recover(); p != nil {
			err = fmt.Errorf("panic in Merge of %s: %v", id, p)
		}
	}()
	inAbs := abstractRules(in)
	texts := []string{}
	for _, x := range in {
		texts = append(texts, strings.TrimSpace(x.String()))
	}
	out := in.Merge()
	outAbs := abstractRules(out)
	out2Abs := abstractRules(out.Merge())
	return map[string]any{"ev": "merge", "id": id, "in": inAbs, "out": outAbs, "out2": out2Abs, "texts": texts}, nil
}

func checkC10(e *Env, r *Report) {
	mlen := "3"
	if e.Tier == "thorough" {
		mlen = "4"
	}
	res, err := e.RunTLC(TLCOpts{Module: "MC_Rules", Workers: 12, Timeout: 20 * time.Minute, Env: map[string]string{"VERIF_RULES_LEN": mlen}})
	if err != nil {
		r.Fatal = err.Error()
		return
	}
	r.AddTLC(res)
	if !res.Healthy() {
		r.Fatal = "MC_Rules: the merge loop does not preserve facts under A1/A2, or TLC failed: " + res.InvViol + res.Err + tail(res.Out, 800)
		return
	}
	recs := []any{}
	seen := map[string]bool{}
	add := func(id string, texts []string) bool {
		k := strings.Join(texts, "\x00")
		if seen[k] {
			return true
		}
		seen[k] = true
		rec, err := mergeEvent(id, texts)
		if err != nil {
			r.Violate("C10|crash|"+id, err.Error(), map[string]any{"texts": texts})
			return true
		}
		recs = append(recs, rec)
		return true
	}
	nModel := 0
	for _, p := range res.PrintsWithPrefix("BEH") {
		var b struct {
			Input []int `json:"input"`
		}
		if err := json.Unmarshal([]byte(p), &b); err != nil {
			r.Fatal = "bad BEH"
			return
		}
		texts := []string{}
		for _, i := range b.Input {
			texts = append(texts, mcMenuTexts[i-1])
		}
		add("mc:"+strings.Join(texts, " "), texts)
		nModel++
	}
	r.Coverage["model_lists"] = nModel
	// near-duplicate menus: all ordered pairs, all ordered triples (quick: seeded third), seeded longer lists
	rng := rand.New(rand.NewSource(e.Seed))
	for _, k := range kindsSorted() {
		m := kindMenus[k]
		for i := range m {
			for j := range m {
				add(fmt.Sprintf("%s:%s | %s", k, m[i], m[j]), []string{m[i], m[j]})
				// aliasing probes: a third rule whose value lists equal the first one's (shared slices)
				for l := range m {
					if l != i && l != j && sameLists(m[i], m[l]) {
						add(fmt.Sprintf("%s:%s | %s | %s", k, m[i], m[j], m[l]), []string{m[i], m[j], m[l]})
						add(fmt.Sprintf("%s:%s | %s | %s", k, m[l], m[i], m[j]), []string{m[l], m[i], m[j]})
					}
				}
				if e.Tier == "thorough" {
					for l := range m {
						add(fmt.Sprintf("%s:%s | %s | %s", k, m[i], m[j], m[l]), []string{m[i], m[j], m[l]})
					}
				} else {
					l := rng.Intn(len(m))
					add(fmt.Sprintf("%s:%s | %s | %s", k, m[i], m[j], m[l]), []string{m[i], m[j], m[l]})
				}
			}
		}
	}
	// the field lattice of every kind (as in C11): two rules that differ in one or two fields only - also the same
	// value standing in two different fields (a name owned and the same name as peer) - merged in both orders
	nLattice := 0
	for si := range ruleSchemas {
		sc := &ruleSchemas[si]
		if sc.Kind == "comment" || sc.Kind == "include" || sc.Kind == "all" {
			continue
		}
		for level, vecs := range latticeLevels(sc) {
			for i := range vecs {
				for j := range vecs {
					// (quick: every pair of the level where all other fields are absent, a seeded half of the other levels)
					if i == j || (e.Tier != "thorough" && level > 0 && (i+j+level+int(e.Seed))%2 != 0 && i != 0 && j != 0) {
						continue
					}
					a, errA := buildRule(sc, vecs[i])
					b, errB := buildRule(sc, vecs[j])
					if errA != nil || errB != nil {
						continue
					}
					id := fmt.Sprintf("lattice:%s%v | %v", sc.Kind, vecs[i], vecs[j])
					rec, err := structMergeEvent(id, aa.Rules{a, b})
					if err != nil {
						r.Violate("C10|crash|"+id, err.Error(), map[string]any{"id": id})
						continue
					}
					recs = append(recs, rec)
					nLattice++
				}
			}
		}
	}
	r.Coverage["lattice_pairs_merged"] = nLattice
	// the complete value tables of the real code (aa.VerifTables): every value of every list-valued
	// field merged with its neighbour in the table, and with the first and the last one
	nTable := 0
	tableRule := map[string]func(v string) string{
		"signal/set":      func(v string) string { return "signal send set=" + v + " peer=p," },
		"signal/access":   func(v string) string { return "signal " + v + " set=hup peer=p," },
		"capability/name": func(v string) string { return "capability " + v + "," },
		"ptrace/access":   func(v string) string { return "ptrace " + v + " peer=p," },
		"unix/access":     func(v string) string { return "unix " + v + " type=stream," },
		"mqueue/access":   func(v string) string { return "mqueue " + v + " type=posix /q," },
		"io_uring/access": func(v string) string { return "io_uring " + v + " label=l," },
		"mount/flags":     func(v string) string { return "mount options=(" + v + ") /a -> /b," },
		"dbus/access": func(v string) string {
			return "dbus " + v + " bus=session path=/a interface=i member=m peer=(name=n label=l),"
		},
	}
	if req, ok := aa.VerifTables()["requirements"].(map[string]map[string][]string); ok {
		tks := []string{}
		for k := range tableRule {
			tks = append(tks, k)
		}
		sort.Strings(tks)
		for _, tk := range tks {
			parts := strings.SplitN(tk, "/", 2)
			vals := req[parts[0]][parts[1]]
			mk := tableRule[tk]
			usable := []string{}
			for _, v := range vals {
				if v == "bind" && parts[0] == "dbus" {
					continue // bind rules have another shape
				}
				if _, err := parseRuleTexts([]string{mk(v)}); err == nil {
					usable = append(usable, v)
				}
			}
			for i, v := range usable {
				for _, w := range []string{usable[(i+1)%len(usable)], usable[0], usable[len(usable)-1]} {
					if w != v {
						add(fmt.Sprintf("table:%s:%s+%s", tk, v, w), []string{mk(v), mk(w)})
						nTable++
					}
				}
			}
		}
	}
	r.Coverage["value_table_merges"] = nTable
	nMixed := 400
	if e.Tier == "thorough" {
		nMixed = 5000
	}
	ks := kindsSorted()
	for n := 0; n < nMixed; n++ {
		texts := []string{}
		for l := 0; l < 2+rng.Intn(4); l++ {
			m := kindMenus[ks[rng.Intn(len(ks))]]
			if rng.Intn(2) == 0 && len(texts) > 0 { // bias towards same-kind neighbours
				m = kindMenus[kindOfText(texts[len(texts)-1])]
			}
			texts = append(texts, m[rng.Intn(len(m))])
		}
		add("mix:"+strings.Join(texts, " | "), texts)
	}
	// the shipped corpus: every paragraph of every shipped profile, as the real parser reads it
	nc, skipped := corpusParagraphs(e, r, rng, func(id string, mk func() aa.Rules) {
		defer func() {
			if p := recover(); p != nil {
				r.Violate("C10|crash|"+id, fmt.Sprintf("Merge panicked on a paragraph of a shipped profile: %v", p), map[string]any{"id": id})
			}
		}()
		in := abstractRules(mk())
		out := mk().Merge()
		outAbs := abstractRules(out)
		out2Abs := abstractRules(out.Merge())
		recs = append(recs, map[string]any{"ev": "merge", "id": id, "in": in, "out": outAbs, "out2": out2Abs})
	})
	r.Coverage["corpus_paragraphs"] = nc
	r.Coverage["corpus_files_not_parsed"] = skipped
	recs = append(recs, aliasEvents...)
	r.Coverage["merge_runs"] = len(recs)
	r.Sample(recs[0])
	r.Sample(recs[len(recs)-1])
	runRulesTrace(e, r, recs, "C10")
}

// corpusParagraphs hands every paragraph (two rules or more) of the shipped profiles to fn as a
// constructor of fresh rules (Merge and Sort work in place). Files the partial parser cannot read are
// counted, not judged. quick: a seeded sample.
func corpusParagraphs(e *Env, r *Report, rng *rand.Rand, fn func(id string, mk func() aa.Rules)) (int, int) {
	root := filepath.Join(e.Repo, "apparmor.d")
	files := []string{}
	for _, f := range listFiles(root) {
		if strings.HasPrefix(f, "groups/") || strings.HasPrefix(f, "profiles-") {
			files = append(files, f)
		}
	}
	sort.Strings(files)
	type para struct {
		id   string
		text string
		idx  int
	}
	all := []para{}
	skipped := 0
	for _, f := range files {
		b, err := os.ReadFile(filepath.Join(root, f))
		if err != nil {
			continue
		}
		text := string(b)
		var n int
		ok := func() (ok bool) {
			defer func() {
				if p := recover(); p != nil {
					ok = false
				}
			}()
			prs, _, err := aa.ParseRules(text)
			if err != nil {
				return false
			}
			n = len(prs)
			for i, rs := range prs {
				if len(rs) >= 2 {
					all = append(all, para{fmt.Sprintf("corpus:%s#%d", f, i), text, i})
				}
			}
			return true
		}()
		if !ok {
			skipped++
		}
		_ = n
	}
	if e.Tier != "thorough" && len(all) > 1500 {
		rng.Shuffle(len(all), func(i, j int) { all[i], all[j] = all[j], all[i] })
		all = all[:1500]
	}
	cache := map[string]string{}
	_ = cache
	for _, p := range all {
		p := p
		fn(p.id, func() aa.Rules {
			prs, _, err := aa.ParseRules(p.text)
			if err != nil || p.idx >= len(prs) {
				return aa.Rules{}
			}
			return prs[p.idx]
		})
	}
	return len(all), skipped
}

func kindOfText(t string) string {
	for _, k := range kindsSorted() {
		for _, x := range kindMenus[k] {
			if x == t {
				return k
			}
		}
	}
	return "file"
}

func sgn(x int) int {
	if x < 0 {
		return -1
	}
	if x > 0 {
		return 1
	}
	return 0
}

func permutations(n int) [][]int {
	res := [][]int{}
	var rec func(cur []int, used []bool)
	rec = func(cur []int, used []bool) {
		if len(cur) == n {
			res = append(res, append([]int{}, cur...))
			return
		}
		for i := 0; i < n; i++ {
			if !used[i] {
				used[i] = true
				rec(append(cur, i), used)
				used[i] = false
			}
		}
	}
	rec(nil, make([]bool, n))
	return res
}

func checkC11(e *Env, r *Report) {
	// the design side: the merge/sort specification module is model checked in C10; here the order
	// axioms are evaluated by TLC on complete comparison matrices of the REAL Compare
	res, err := e.RunTLC(TLCOpts{Module: "MC_Rules", Workers: 12, Timeout: 20 * time.Minute, Env: map[string]string{"VERIF_RULES_LEN": "3"}})
	if err != nil {
		r.Fatal = err.Error()
		return
	}
	r.AddTLC(res)
	recs := []any{}
	rng := rand.New(rand.NewSource(e.Seed))
	for _, k := range kindsSorted() {
		texts := kindMenus[k]
		rules, err := parseRuleTexts(texts)
		if err != nil {
			r.Fatal = err.Error()
			return
		}
		n := len(rules)
		m := make([][]int, n)
		same := make([][]bool, n)
		abs := abstractRules(rules)
		for i := 0; i < n; i++ {
			m[i] = make([]int, n)
			same[i] = make([]bool, n)
			for j := 0; j < n; j++ {
				m[i][j] = sgn(rules[i].Compare(rules[j]))
				same[i][j] = reflect.DeepEqual(abs[i], abs[j])
			}
		}
		recs = append(recs, map[string]any{"ev": "cmp", "id": "cmp:" + k, "kind": k, "texts": texts, "m": m, "same": same})
		// sorting: every permutation of seeded sub-lists of 4 (quick) / 5 (thorough) rules
		size := 4
		nLists := 6
		if e.Tier == "thorough" {
			size = 5
			nLists = 30
		}
		if size > n {
			size = n
		}
		for li := 0; li < nLists; li++ {
			idx := rng.Perm(n)[:size]
			sort.Ints(idx)
			results := [][]string{}
			resorted := [][]string{}
			for _, p := range permutations(size) {
				ts := []string{}
				for _, pi := range p {
					ts = append(ts, texts[idx[pi]])
				}
				rs := cloneRules(ts).Sort()
				out := []string{}
				for _, x := range rs {
					out = append(out, ruleIdentity(x))
				}
				results = append(results, out)
				rs2 := rs.Sort()
				out2 := []string{}
				for _, x := range rs2 {
					out2 = append(out2, ruleIdentity(x))
				}
				resorted = append(resorted, out2)
			}
			ids := []string{}
			for _, i := range idx {
				ids = append(ids, texts[i])
			}
			recs = append(recs, map[string]any{"ev": "sort", "id": "sort:" + k + ":" + strings.Join(ids, " | "), "results": results, "resorted": resorted})
		}
	}
	// the field lattice of every kind (the value table of C09/C12): from the rule with every field absent, and
	// from the rules with every field at its first / second value, each field alone is moved through all its
	// values - so every pair "field absent / field given", "this value / the next one" meets in one matrix
	for _, sc := range ruleSchemas {
		if sc.Kind == "comment" {
			continue
		}
		skip := map[string]bool{"Comment": true, "FileInherit": true, "NoNewPrivs": true, "Optional": true}
		vecs := [][]int{}
		seenV := map[string]bool{}
		addV := func(v []int) {
			k := fmt.Sprint(v)
			if !seenV[k] {
				seenV[k] = true
				vecs = append(vecs, append([]int{}, v...))
			}
		}
		for level := 0; level < 3; level++ {
			base := make([]int, len(sc.Fields))
			for i, fc := range sc.Fields {
				if !skip[fc.Field] {
					base[i] = min(level, len(fc.Choices)-1)
				}
			}
			addV(base)
			for i, fc := range sc.Fields {
				if skip[fc.Field] {
					continue
				}
				for c := range fc.Choices {
					v := append([]int{}, base...)
					v[i] = c
					addV(v)
				}
			}
		}
		rules := aa.Rules{}
		texts := []string{}
		for _, v := range vecs {
			x, err := buildRule(&sc, v)
			if err != nil {
				continue
			}
			rules = append(rules, x)
			texts = append(texts, fmt.Sprintf("%s%v %s", sc.Kind, v, strings.TrimSpace(x.String())))
		}
		n := len(rules)
		if n < 2 {
			continue
		}
		m := make([][]int, n)
		same := make([][]bool, n)
		abs := abstractRules(rules)
		for i := 0; i < n; i++ {
			m[i] = make([]int, n)
			same[i] = make([]bool, n)
			for j := 0; j < n; j++ {
				m[i][j] = sgn(rules[i].Compare(rules[j]))
				same[i][j] = reflect.DeepEqual(abs[i], abs[j])
			}
		}
		recs = append(recs, map[string]any{"ev": "cmp", "id": "cmp:lattice:" + sc.Kind, "kind": sc.Kind, "texts": texts, "m": m, "same": same})
	}
	// the rules of a preamble (built as structs): variables that refer to one another in and against the order of
	// their names, abi, alias, includes - complete matrix, and every triple sorted in all six orders
	{
		mk := []func() aa.Rule{
			func() aa.Rule {
				return &aa.Variable{Name: "cache_dirs", Define: true, Values: []string{"@{user_cache_dirs}/foo"}}
			},
			func() aa.Rule {
				return &aa.Variable{Name: "lib_dirs", Define: true, Values: []string{"/opt/foo", "@{lib}/foo"}}
			},
			func() aa.Rule {
				return &aa.Variable{Name: "user_cache_dirs", Define: true, Values: []string{"@{HOME}/.cache"}}
			},
			func() aa.Rule { return &aa.Variable{Name: "name", Define: true, Values: []string{"foo"}} },
			func() aa.Rule {
				return &aa.Variable{Name: "exec_path", Define: true, Values: []string{"@{lib_dirs}/@{name}", "@{bin}/@{name}"}}
			},
			func() aa.Rule {
				return &aa.Variable{Name: "exec_path", Define: false, Values: []string{"/opt/@{name}/bin"}}
			},
			func() aa.Rule { return &aa.Variable{Name: "bin", Define: false, Values: []string{"@{cache_dirs}/bin"}} },
			func() aa.Rule { return &aa.Variable{Name: "Name", Define: true, Values: []string{"Foo"}} },
			func() aa.Rule { return &aa.Abi{Path: "abi/4.0", IsMagic: true} },
			func() aa.Rule { return &aa.Abi{Path: "abi/3.0", IsMagic: true} },
			func() aa.Rule { return &aa.Alias{Path: "/usr/", RewrittenPath: "/User/"} },
			func() aa.Rule { return &aa.Alias{Path: "/usr/", RewrittenPath: "/mnt/usr/"} },
			func() aa.Rule { return &aa.Include{Path: "tunables/global", IsMagic: true} },
			func() aa.Rule { return &aa.Include{Path: "tunables/global", IsMagic: true, IfExists: true} },
		}
		n := len(mk)
		rules := aa.Rules{}
		texts := []string{}
		for _, f := range mk {
			x := f()
			rules = append(rules, x)
			texts = append(texts, strings.TrimSpace(x.String()))
		}
		abs := abstractRules(rules)
		// (Compare is only defined between rules of one kind: one matrix per kind)
		byKind := map[string][]int{}
		for i, x := range rules {
			byKind[string(x.Kind())] = append(byKind[string(x.Kind())], i)
		}
		for kind, ix := range byKind {
			kn := len(ix)
			m := make([][]int, kn)
			same := make([][]bool, kn)
			kt := []string{}
			for a := 0; a < kn; a++ {
				m[a] = make([]int, kn)
				same[a] = make([]bool, kn)
				kt = append(kt, texts[ix[a]])
				for b := 0; b < kn; b++ {
					m[a][b] = sgn(rules[ix[a]].Compare(rules[ix[b]]))
					same[a][b] = reflect.DeepEqual(abs[ix[a]], abs[ix[b]])
				}
			}
			recs = append(recs, map[string]any{"ev": "cmp", "id": "cmp:preamble:" + kind, "kind": kind, "texts": kt, "m": m, "same": same})
		}
		for i := 0; i < n; i++ {
			for j := i + 1; j < n; j++ {
				for k := j + 1; k < n; k++ {
					if rules[i].Kind() != rules[j].Kind() || rules[j].Kind() != rules[k].Kind() {
						continue
					}
					if e.Tier != "thorough" && (i+j*3+k*5+int(e.Seed))%2 != 0 && !(i < 3 && j < 3 && k < 3) {
						continue
					}
					idx := []int{i, j, k}
					results, resorted := [][]string{}, [][]string{}
					for _, p := range permutations(3) {
						rs := aa.Rules{mk[idx[p[0]]](), mk[idx[p[1]]](), mk[idx[p[2]]]()}.Sort()
						out, out2 := []string{}, []string{}
						for _, x := range rs {
							out = append(out, ruleIdentity(x))
						}
						for _, x := range rs.Sort() {
							out2 = append(out2, ruleIdentity(x))
						}
						results = append(results, out)
						resorted = append(resorted, out2)
					}
					recs = append(recs, map[string]any{"ev": "sort", "id": "sort:preamble:" + texts[i] + " | " + texts[j] + " | " + texts[k], "results": results, "resorted": resorted})
				}
			}
		}
	}
	// sub-profiles (built as structs: name, attachments, xattrs map, flags): comparing twice must give the
	// same sign (a map is walked in random order), a profile equals itself
	{
		profs := []*aa.Profile{}
		for _, name := range []string{"suba", "subb"} {
			for _, att := range [][]string{nil, {"/usr/bin/x"}} {
				for _, xa := range []map[string]string{nil, {"security.tag": "x"}, {"security.tag": "x", "user.kind": "y"}, {"security.tag": "x", "user.kind": "z", "user.more": "w"}} {
					for _, fl := range [][]string{nil, {"complain"}} {
						profs = append(profs, &aa.Profile{Header: aa.Header{Name: name, Attachments: att, Attributes: xa, Flags: fl}})
					}
				}
			}
		}
		n := len(profs)
		m := make([][]int, n)
		same := make([][]bool, n)
		texts := make([]string, n)
		unstable := false
		for i := 0; i < n; i++ {
			m[i] = make([]int, n)
			same[i] = make([]bool, n)
		}
		flipped := map[[2]int]bool{}
		for i := 0; i < n; i++ {
			hb, _ := json.Marshal(profs[i].Header)
			texts[i] = string(hb)
			for j := 0; j < n; j++ {
				m[i][j] = sgn(profs[i].Compare(profs[j]))
				for k := 0; k < 6; k++ {
					if sgn(profs[i].Compare(profs[j])) != m[i][j] {
						unstable = true
						flipped[[2]int{i, j}] = true
					}
				}
				// two sub-profiles of one name and attachment are the same profile (xattrs and flags describe it)
				same[i][j] = profs[i].Name == profs[j].Name && reflect.DeepEqual(profs[i].Attachments, profs[j].Attachments)
			}
		}
		_ = unstable
		for p := range flipped { // a comparison whose sign changes from call to call: recorded as an antisymmetry failure
			m[p[0]][p[1]], m[p[1]][p[0]] = 1, 1
		}
		recs = append(recs, map[string]any{"ev": "cmp", "id": "cmp:profile", "kind": "profile", "texts": texts, "m": m, "same": same})
	}
	// mixed kinds: the kind order used by Rules.Sort
	mixed := []string{"include <abstractions/base>", "include <abstractions/z>", "include if exists <abstractions/a>", "include if exists <local/x>", "/a r,", "@{bin}/b rix,", "capability chown,", "network inet stream,", "signal send peer=p,", "dbus bind bus=session name=n,", "userns,", "all,", "link /a -> /b,", "ptrace read peer=p,", "unix send type=stream,", "mount /a -> /b,"}
	nMixed := 25
	if e.Tier == "thorough" {
		nMixed = 200
	}
	for li := 0; li < nMixed; li++ {
		size := 4
		idx := rng.Perm(len(mixed))[:size]
		sort.Ints(idx)
		results := [][]string{}
		resorted := [][]string{}
		for _, p := range permutations(size) {
			ts := []string{}
			for _, pi := range p {
				ts = append(ts, mixed[idx[pi]])
			}
			rs := cloneRules(ts).Sort()
			out := []string{}
			for _, x := range rs {
				out = append(out, ruleIdentity(x))
			}
			results = append(results, out)
			out2 := []string{}
			for _, x := range rs.Sort() {
				out2 = append(out2, ruleIdentity(x))
			}
			resorted = append(resorted, out2)
		}
		ids := []string{}
		for _, i := range idx {
			ids = append(ids, mixed[i])
		}
		recs = append(recs, map[string]any{"ev": "sort", "id": "sort:mixed:" + strings.Join(ids, " | "), "results": results, "resorted": resorted})
	}
	// the known path prefixes themselves (the node, not something under it) next to paths of the same
	// directory that belong to another group: every triple, in all six orders
	prefixRules := []string{}
	known := []string{"@{exec_path}", "@{sh_path}", "@{coreutils_path}", "@{open_path}", "@{bin}", "@{lib}", "/opt", "/usr/share", "/etc", "/var", "/boot", "/home", "@{HOME}",
		"@{user_cache_dirs}", "@{user_config_dirs}", "@{user_share_dirs}", "/tmp", "@{tmp}", "/dev/shm", "@{run}", "@{sys}", "@{PROC}", "/dev"}
	if fa, ok := aa.VerifTables()["fileAlphabet"].([]string); ok && len(fa) > 5 {
		known = []string{} // the real table of the code under test
		for _, x := range fa {
			if strings.HasPrefix(x, "/") || strings.HasPrefix(x, "@{") {
				known = append(known, x)
			}
		}
	}
	for _, pfx := range known {
		prefixRules = append(prefixRules, pfx+" r,")
	}
	prefixRules = append(prefixRules, "/dev/null rw,", "/usr/lib/a r,", "/vmlinuz r,", "/srv/a r,", "/ r,", "/optional/a r,", "/dev/shm/a rw,", "/etc/a r,")
	nTriples := 0
	for i := 0; i < len(prefixRules); i++ {
		for j := i + 1; j < len(prefixRules); j++ {
			for k := j + 1; k < len(prefixRules); k++ {
				if e.Tier != "thorough" && (i*31+j*17+k*7+int(e.Seed))%3 != 0 {
					continue // quick: a seeded third of the triples
				}
				ts := []string{prefixRules[i], prefixRules[j], prefixRules[k]}
				results := [][]string{}
				resorted := [][]string{}
				for _, p := range permutations(3) {
					rs := cloneRules([]string{ts[p[0]], ts[p[1]], ts[p[2]]}).Sort()
					out, out2 := []string{}, []string{}
					for _, x := range rs {
						out = append(out, ruleIdentity(x))
					}
					for _, x := range rs.Sort() {
						out2 = append(out2, ruleIdentity(x))
					}
					results = append(results, out)
					resorted = append(resorted, out2)
				}
				recs = append(recs, map[string]any{"ev": "sort", "id": "sort:prefix:" + strings.Join(ts, " | "), "results": results, "resorted": resorted})
				nTriples++
			}
		}
	}
	r.Coverage["prefix_triples_sorted"] = nTriples
	// the shipped corpus: sorting a paragraph of a shipped profile gives the same list whatever order it is given in
	ncorp, _ := corpusParagraphs(e, r, rng, func(id string, mk func() aa.Rules) {
		defer func() {
			if p := recover(); p != nil {
				r.Violate("C11|crash|"+id, fmt.Sprintf("Sort panicked on a paragraph of a shipped profile: %v", p), map[string]any{"id": id})
			}
		}()
		ident := func(rs aa.Rules) []string {
			out := []string{}
			for _, x := range rs {
				if x != nil {
					out = append(out, ruleIdentity(x))
				}
			}
			return out
		}
		results := [][]string{}
		resorted := [][]string{}
		for variant := 0; variant < 3; variant++ {
			// free-standing comment lines keep the place they are written at: they are not part of the
			// order, a paragraph is permuted without them
			rs := aa.Rules{}
			for _, x := range mk() {
				if x != nil && x.Kind() != aa.COMMENT {
					rs = append(rs, x)
				}
			}
			switch variant {
			case 1:
				slices.Reverse(rs)
			case 2:
				if len(rs) > 2 {
					rs = append(rs[len(rs)/2:], rs[:len(rs)/2]...)
				}
			}
			rs = rs.Sort()
			results = append(results, ident(rs))
			resorted = append(resorted, ident(rs.Sort()))
		}
		recs = append(recs, map[string]any{"ev": "sort", "id": "sort:" + id, "results": results, "resorted": resorted})
	})
	r.Coverage["corpus_paragraphs"] = ncorp
	// string order (StrOrder.tla): complete sign matrices of rules that differ in one string only
	recs = append(recs, strOrderEvents(e, r, rng)...)
	r.Coverage["universes"] = len(kindMenus)
	r.Coverage["trace_events"] = len(recs)
	r.Sample(map[string]any{"universe": "file", "rules": kindMenus["file"][:6]})
	runRulesTrace(e, r, recs, "C11")
}

var strChars = map[string]string{"sp": " ", "ex": "!", "dot": ".", "d1": "1", "d2": "2", "B": "B", "b": "b", "c": "c", "e1": "\u00e8", "e2": "\u00e9"}
var strCharNames = []string{"sp", "ex", "dot", "d1", "d2", "B", "b", "c", "e1", "e2"}

func strOrderEvents(e *Env, r *Report, rng *rand.Rand) []any {
	// the model itself is a total order on the universe
	st, err := e.RunTLC(TLCOpts{Module: "MC_StrOrder", Workers: 4, Timeout: 20 * time.Minute})
	if err != nil || !st.Healthy() {
		r.Drift = append(r.Drift, "MC_StrOrder (design check of the string order) did not pass")
	} else {
		r.AddTLC(st)
	}
	strs := [][]string{{}}
	for _, a := range strCharNames {
		strs = append(strs, []string{a})
		for _, b := range strCharNames {
			strs = append(strs, []string{a, b})
		}
	}
	extra := 30
	if e.Tier == "thorough" {
		extra = 90
	}
	for i := 0; i < extra; i++ {
		n := 3 + rng.Intn(2)
		s := []string{}
		for k := 0; k < n; k++ {
			s = append(s, strCharNames[rng.Intn(len(strCharNames))])
		}
		strs = append(strs, s)
	}
	{
		seenS := map[string]bool{}
		uniq := [][]string{}
		for _, s := range strs {
			k := strings.Join(s, " ")
			if !seenS[k] {
				seenS[k] = true
				uniq = append(uniq, s)
			}
		}
		strs = uniq
	}
	conc := func(s []string) string {
		var b strings.Builder
		for _, c := range s {
			b.WriteString(strChars[c])
		}
		return b.String()
	}
	carriers := map[string]func(v string) aa.Rule{
		"file path":      func(v string) aa.Rule { return &aa.File{Path: "/d/x" + v, Access: []string{"r"}} },
		"signal peer":    func(v string) aa.Rule { return &aa.Signal{Access: []string{"send"}, Peer: "p" + v} },
		"dbus name":      func(v string) aa.Rule { return &aa.Dbus{Access: []string{"bind"}, Bus: "session", Name: "org.x" + v} },
		"include path":   func(v string) aa.Rule { return &aa.Include{Path: "abstractions/x" + v, IsMagic: true} },
		"mount point":    func(v string) aa.Rule { return &aa.Mount{MountPoint: "/mnt/x" + v} },
		"change_profile": func(v string) aa.Rule { return &aa.ChangeProfile{ProfileName: "x" + v} },
	}
	names := []string{}
	for k := range carriers {
		names = append(names, k)
	}
	sort.Strings(names)
	res := []any{}
	for _, cn := range names {
		mk := carriers[cn]
		n := len(strs)
		rules := make([]aa.Rule, n)
		for i, s := range strs {
			rules[i] = mk(conc(s))
		}
		m := make([][]int, n)
		for i := 0; i < n; i++ {
			m[i] = make([]int, n)
			for j := 0; j < n; j++ {
				m[i][j] = sgn(rules[i].Compare(rules[j]))
			}
		}
		res = append(res, map[string]any{"ev": "strcmp", "id": "strcmp:" + cn, "strs": strs, "m": m})
	}
	r.Coverage["string_order_universe"] = len(strs)
	r.Coverage["string_order_carriers"] = len(names)
	return res
}

// ruleIdentity: the rule without its comment (rules that differ only in a comment compare
// equal by design and may come out of a sort in either order).
func ruleIdentity(x aa.Rule) string {
	b, _ := json.Marshal(abstractRule(x))
	return string(b)
}

var listCache = map[string]string{}

func sameLists(a, b string) bool {
	get := func(t string) string {
		if v, ok := listCache[t]; ok {
			return v
		}
		rs, err := parseRuleTexts([]string{t})
		v := ""
		if err == nil {
			j, _ := json.Marshal(abstractRule(rs[0]).D)
			v = string(j)
		}
		listCache[t] = v
		return v
	}
	return get(a) == get(b) && get(a) != "[]" && get(a) != ""
}
