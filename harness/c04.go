package main

// C04: the prepare stage conserves the policy set (Prepare.tla / PrepareTrace.tla).
// The real prebuild binary runs with VERIF_LISTING=1: after every prepare task the hook
// lists .build (path, type, link target, content hash, flags-masked hash). The listing
// after the last prepare task is compared by TLC with the reference ExpectedOut computed
// from the source listing, the manifests and the configuration.

import (
	"encoding/json"
	"fmt"
	"os"
	"path/filepath"
	"regexp"
	"strings"
)

func init() { checks["C04"] = checkC04 }

var reFlagsMask = regexp.MustCompile(`(?m)[ \t]*(?:flags=\([^)]*\))?[ \t]*\{[ \t]*$`)

type srcEntry struct {
	Segs []string `json:"segs"`
	H    string   `json:"h"`
	HM   string   `json:"hm"`
	Kind string   `json:"kind"`
}

var reProfilesDir = regexp.MustCompile(`^profiles-[^-]+-[^-]+$`)

func listSource(root string, kinded bool) []srcEntry {
	res := []srcEntry{}
	for _, f := range listFiles(root) {
		if filepath.Base(f) == "README.md" && !kinded {
			continue
		}
		b, err := os.ReadFile(filepath.Join(root, f))
		if err != nil {
			continue
		}
		segs := strings.Split(f, "/")
		e := srcEntry{Segs: segs, H: sha(b), HM: sha(reFlagsMask.ReplaceAll(b, []byte("{"))), Kind: "other"}
		if kinded {
			switch {
			case segs[0] == "groups" && len(segs) >= 3:
				e.Kind = "group"
			case reProfilesDir.MatchString(segs[0]) && len(segs) >= 2:
				e.Kind = "profiles"
			}
		}
		res = append(res, e)
	}
	return res
}

func readIgnore(src, name string) []map[string]any {
	res := []map[string]any{}
	for _, en := range readListFile(filepath.Join(src, "dists", "ignore", name+".ignore")) {
		if strings.Contains(en, "/") {
			res = append(res, map[string]any{"path": true, "segs": strings.Split(strings.TrimSuffix(en, "/"), "/"), "name": ""})
		} else {
			res = append(res, map[string]any{"path": false, "segs": []string{}, "name": en})
		}
	}
	return res
}

func prepCfgs(e *Env) []Cfg {
	res := []Cfg{}
	if e.Tier == "thorough" {
		for _, c := range AllCfgs() {
			if c.Mode == "none" { // the build mode does not take part in the prepare stage
				res = append(res, c)
			}
		}
		return res
	}
	seen := map[string]bool{}
	for _, c := range quickCfgs(e.Seed) {
		c.Mode = "none"
		if !seen[c.Key()] {
			seen[c.Key()] = true
			res = append(res, c)
		}
	}
	// every (ABI, version) combination at least once, including the mismatched ones
	for i, abi := range []int{3, 4} {
		for j, v := range Vers {
			c := Cfg{Dists[(i*3+j+int(e.Seed))%len(Dists)], abi, v, "none", (i+j)%2 == 0}
			if !seen[c.Key()] {
				seen[c.Key()] = true
				res = append(res, c)
			}
		}
	}
	return res
}

func checkC04(e *Env, r *Report) {
	if err := e.BuildTools(); err != nil {
		r.Fatal = err.Error()
		return
	}
	if err := e.CopySource(); err != nil {
		r.Fatal = err.Error()
		return
	}
	origSrc := e.Src
	nRefused := 0
	gather := func(srcDir string, cfgs []Cfg, tag string) ([]any, int, error) {
		e.Src = srcDir
		defer func() { e.Src = origSrc }()
		src := listSource(filepath.Join(e.Src, "apparmor.d"), true)
		ubuntu := listSource(filepath.Join(e.Src, "dists", "ubuntu"), false)
		fullfiles := listSource(filepath.Join(e.Src, "apparmor.d", "groups", "_full"), false)
		sd := map[string][]srcEntry{}
		for _, k := range []string{"default", "early", "full"} {
			sd[k] = listSource(filepath.Join(e.Src, "systemd", k), false)
		}
		overwrite := readListFile(filepath.Join(e.Src, "dists", "overwrite"))
		recs := make([][]any, len(cfgs))
		errs := make([]error, len(cfgs))
		parallel(len(cfgs), 6, func(i int) {
			c := cfgs[i]
			// a stale .build left by another configuration plus junk: the stage must not depend on it
			pre := func(dir string) error {
				junk := []string{".build/apparmor.d/zz-stale-profile", ".build/apparmor.d/groups/stale/x", ".build/systemd/system/stale.service.d/apparmor.conf", ".build/apparmor.d/disable/stale"}
				for _, j := range junk {
					p := filepath.Join(dir, j)
					_ = os.MkdirAll(filepath.Dir(p), 0o755)
					_ = os.WriteFile(p, []byte("stale\n"), 0o644)
				}
				return nil
			}
			b := e.RunPrebuild(c, BuildOpts{Src: srcDir, Tag: "c04" + tag, Listing: true, NoCache: true, PreRun: pre})
			defer b.Drop()
			if b.Err != nil {
				if strings.HasPrefix(tag, "clash:") {
					nRefused++ // two sources want one output name: a build that refuses is right, and nothing is judged
					return
				}
				errs[i] = b.Err
				return
			}
			evs, err := readEvents(b.Trace)
			if err != nil {
				errs[i] = err
				return
			}
			var prev []any
			var last []any
			for _, ev := range evs {
				if ev["ev"] != "prepare" {
					continue
				}
				lst := convListing(ev["listing"])
				name := str(ev["name"])
				if prev != nil && (name == "merge" || name == "setflags" || name == "overwrite") && (i%4 == 0 || e.Tier == "thorough") {
					recs[i] = append(recs[i], map[string]any{"ev": "task", "id": tag + c.Key() + "|" + name, "name": name, "before": prev, "after": lst})
				}
				prev = lst
				last = lst
			}
			if last == nil {
				errs[i] = fmt.Errorf("no prepare listing for %s (hooks missing?)", c.Key())
				return
			}
			flagged := []string{}
			for n, fl := range readManifest(e.Src, c.Dist) {
				if len(fl) > 0 {
					flagged = append(flagged, n)
				}
			}
			ign := append(readIgnore(e.Src, "main"), readIgnore(e.Src, c.Dist)...)
			recs[i] = append(recs[i], map[string]any{"ev": "prepared", "id": tag + c.Key(), "cfg": c, "src": src, "ignore": ign, "ubuntu": ubuntu, "fullfiles": fullfiles,
				"overwrite": overwrite, "flagged": flagged, "sd_default": sd["default"], "sd_early": sd["early"], "sd_full": sd["full"], "out": last})
		})
		out := []any{}
		for i := range cfgs {
			if errs[i] != nil {
				return nil, 0, errs[i]
			}
			out = append(out, recs[i]...)
		}
		return out, len(src), nil
	}
	cfgs := prepCfgs(e)
	all, nsrc, err := gather(origSrc, cfgs, "")
	if err != nil {
		r.Fatal = err.Error()
		return
	}
	// a variant of the source tree: one profile name in two groups, ignored by a name entry; the
	// manifests (ignore list, flags, overwrite) end without a final newline
	vdir, verr := c04VariantTree(e, origSrc)
	if verr != nil {
		r.Fatal = verr.Error()
		return
	}
	vcfgs := []Cfg{{"debian", 4, "4.0", "none", false}, {"arch", 3, "3.0", "none", true}}
	if e.Tier == "thorough" {
		vcfgs = append(vcfgs, Cfg{"ubuntu", 4, "4.1", "none", false}, Cfg{"opensuse", 4, "4.0", "none", true}, Cfg{"whonix", 3, "4.0", "none", false})
	}
	vall, _, err := gather(vdir, vcfgs, "variant:")
	if err != nil {
		r.Fatal = err.Error()
		return
	}
	all = append(all, vall...)
	r.Coverage["variant_tree_configs"] = len(vcfgs)
	// a second variant: a file of the full-system-policy group has the name of a regular profile. In a --full build
	// the two want one output name: the build may refuse; if it goes through, one of them is lost (Prepare!Clashes)
	{
		cdir := filepath.Join(e.Scratch, "src-c04-clash")
		if out, err := execCmd("cp", "-a", origSrc, cdir); err != nil {
			r.Fatal = fmt.Sprintf("copy source: %v %s", err, out)
			return
		}
		clash := "abi <abi/4.0>,\n\ninclude <tunables/global>\n\nprofile aa-log flags=(attach_disconnected) {\n  include <abstractions/base>\n\n  /etc/fsp r,\n\n  include if exists <local/aa-log>\n}\n"
		if err := os.WriteFile(filepath.Join(cdir, "apparmor.d", "groups", "_full", "aa-log"), []byte(clash), 0o644); err != nil {
			r.Fatal = err.Error()
			return
		}
		ccfgs := []Cfg{{"arch", 4, "4.1", "none", true}, {"debian", 3, "3.0", "none", true}}
		call, _, err := gather(cdir, ccfgs, "clash:")
		if err != nil {
			r.Fatal = err.Error()
			return
		}
		all = append(all, call...)
		r.Coverage["clash_tree_builds_refused"] = nRefused
		r.Coverage["clash_tree_builds_judged"] = len(ccfgs) - nRefused
	}
	src := make([]struct{}, nsrc)
	r.Coverage["configs"] = len(cfgs)
	r.Coverage["source_entries"] = len(src)
	r.Coverage["trace_events"] = len(all)
	tp := filepath.Join(e.Scratch, "prepare.ndjson")
	if err := writeNDJSON(tp, all); err != nil {
		r.Fatal = err.Error()
		return
	}
	res, err := e.RunTLC(TLCOpts{Module: "PrepareTrace", Workers: 1, Timeout: 40 * 60 * 1e9, Env: map[string]string{"VERIF_TRACE": tp}})
	if err != nil {
		r.Fatal = err.Error()
		return
	}
	r.AddTLC(res)
	if !res.Healthy() {
		r.Fatal = "PrepareTrace did not complete: " + res.Err + tail(res.Out, 1500)
		return
	}
	r.Traces += len(all)
	for _, p := range res.PrintsWithPrefix("VIOL") {
		var x struct {
			ID   string          `json:"id"`
			What string          `json:"what"`
			D    json.RawMessage `json:"d"`
		}
		if err := json.Unmarshal([]byte(p), &x); err != nil {
			r.Fatal = "bad VIOL line"
			return
		}
		// one violation per (kind, path): the configuration goes into the description
		var paths []any
		_ = json.Unmarshal(x.D, &paths)
		if len(paths) == 0 {
			r.Violate("C04|"+x.What, fmt.Sprintf("[%s] %s", x.ID, x.What), map[string]any{"cfg": x.ID, "detail": x.D})
			continue
		}
		for _, pth := range paths {
			pb, _ := json.Marshal(pth)
			ps := strings.NewReplacer("[", "", "]", "", "\"", "", ",", "/").Replace(string(pb))
			r.Violate(fmt.Sprintf("C04|%s|%s", x.What, ps), fmt.Sprintf("[%s] %s: %s", x.ID, x.What, ps), map[string]any{"cfg": x.ID, "what": x.What, "path": pth})
		}
	}
	r.Sample(map[string]any{"cfg": cfgs[0], "source_entries": nsrc, "ignore_entries": len(readIgnore(e.Src, "main"))})
	r.Assume = append(r.Assume, "the listing hook reports .build faithfully (cross-checked: the final tree is read directly by the other checks)")
}

func convListing(v any) []any {
	res := []any{}
	arr, _ := v.([]any)
	for _, x := range arr {
		m, _ := x.(map[string]any)
		if m == nil || m["t"] == "d" {
			continue
		}
		res = append(res, map[string]any{"segs": strings.Split(str(m["p"]), "/"), "t": str(m["t"]), "h": str(m["h"]), "hm": str(m["hm"]), "l": str(m["l"])})
	}
	return res
}

// c04VariantTree copies the source tree and adds what the shipped data does not have: a profile name
// that lives in two groups and is ignored by a name entry, and manifests without a final newline.
func c04VariantTree(e *Env, src string) (string, error) {
	dst := filepath.Join(e.Scratch, "src-c04-variant")
	if out, err := execCmd("cp", "-a", src, dst); err != nil {
		return "", fmt.Errorf("copy source: %v %s", err, out)
	}
	prof := func(name string) string {
		return "abi <abi/4.0>,\n\ninclude <tunables/global>\n\n@{exec_path} = @{bin}/" + name + "\nprofile " + name + " @{exec_path} {\n  include <abstractions/base>\n\n  @{exec_path} mr,\n\n  include if exists <local/" + name + ">\n}\n"
	}
	for _, g := range []string{"vgen-a", "vgen-b"} {
		d := filepath.Join(dst, "apparmor.d", "groups", g)
		if err := os.MkdirAll(d, 0o755); err != nil {
			return "", err
		}
		if err := os.WriteFile(filepath.Join(d, "vgen-dup"), []byte(prof("vgen-dup")), 0o644); err != nil {
			return "", err
		}
		if err := os.WriteFile(filepath.Join(d, "vgen-keep-"+g), []byte(prof("vgen-keep-"+g)), 0o644); err != nil {
			return "", err
		}
	}
	stripNL := func(p string, extra string) error {
		b, err := os.ReadFile(p)
		if err != nil {
			return err
		}
		t := strings.TrimRight(string(b), "\n")
		if extra != "" {
			t += "\n" + extra
		}
		return os.WriteFile(p, []byte(t), 0o644)
	}
	for _, d := range Dists {
		if err := stripNL(filepath.Join(dst, "dists", "ignore", d+".ignore"), "vgen-dup"); err != nil {
			return "", err
		}
	}
	if err := stripNL(filepath.Join(dst, "dists", "overwrite"), ""); err != nil {
		return "", err
	}
	if err := stripNL(filepath.Join(dst, "dists", "flags", "main.flags"), "vgen-keep-vgen-b attach_disconnected,complain"); err != nil {
		return "", err
	}
	return dst, nil
}
