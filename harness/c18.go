package main

// C18: build options are orthogonal. Pairs of real builds at Hamming distance one are
// compared entry by entry and line by line; every difference becomes an event that TLC
// judges against Ortho.tla (which facts of the source tree justify which difference).

import (
	"encoding/json"
	"fmt"
	"os"
	"path/filepath"
	"sort"
	"strings"
	"time"
)

func init() { checks["C18"] = checkC18 }

type lineRec struct {
	Cmp  string // whitespace-insensitive text: re-indentation is layout, not a difference
	Raw  string
	Norm string
	A    AItem
}

func collapse(s string) string { return strings.ToLower(strings.Join(strings.Fields(s), " ")) }

// normOf gives a text identity of a logical line that survives the builders
// (mode lower-casing, fsp rewrite, abi3 commenting, header flag rewriting).
func normOf(it Item) string {
	x := it
	if it.T == "dir" && it.Inline && it.Body != nil {
		x = *it.Body
	}
	switch {
	case x.T == "exec":
		return "x|" + x.Path + "|" + x.R + "|" + x.Target + "|" + strings.Join(x.Quals, " ")
	case x.T == "hdr":
		return "h|" + x.Name
	case x.T == "a4":
		return "a4|" + collapse(strings.TrimSpace(x.Raw))
	case x.T == "cmt" && x.Cmted && x.Kind == "exec":
		return "x#|" + x.Path + "|" + x.R + "|" + x.Target
	case x.T == "cmt" && x.Cmted && x.Kind != "exec":
		return "a4|" + collapse(strings.TrimSpace(strings.TrimPrefix(strings.TrimSpace(x.Raw), "#")))
	case x.T == "abi":
		return "abi"
	}
	raw := x.Raw
	if i := strings.Index(raw, "#aa:"); i >= 0 && x.T != "dir" {
		raw = raw[:i]
	}
	return collapse(raw)
}

func lineItems(text string) []lineRec {
	res := []lineRec{}
	for _, it := range Scan(text) {
		if it.T == "blank" {
			continue
		}
		one := abstractText(it.Raw + "\n")
		var a AItem
		if len(one) >= 2 { // interpreted item + seg
			a = one[0]
		} else {
			a = newAItem("line")
			a.Rest = shaS(it.Raw)
		}
		if it.T == "hdr" { // abstractText on a lone line loses the depth
			a.Sub = it.Depth > 0
		}
		res = append(res, lineRec{Cmp: strings.Join(strings.Fields(it.Raw), " "), Raw: it.Raw, Norm: normOf(it), A: a})
	}
	return res
}

type diffOp struct {
	Kind string // chg add del
	A, B *lineRec
}

// diffLines: LCS alignment on raw text; within a hunk, deleted and added lines are
// paired in order when their norms agree (a changed line), otherwise reported apart.
func diffLines(a, b []lineRec) []diffOp {
	// trim common prefix / suffix
	p := 0
	for p < len(a) && p < len(b) && a[p].Cmp == b[p].Cmp {
		p++
	}
	sa, sb := len(a), len(b)
	for sa > p && sb > p && a[sa-1].Cmp == b[sb-1].Cmp {
		sa--
		sb--
	}
	x, y := a[p:sa], b[p:sb]
	n, m := len(x), len(y)
	if n == 0 && m == 0 {
		return nil
	}
	if n*m > 4000000 {
		// too different for the quadratic table: treat as whole-file replacement
		res := []diffOp{}
		for i := range x {
			res = append(res, diffOp{"del", &x[i], nil})
		}
		for j := range y {
			res = append(res, diffOp{"add", nil, &y[j]})
		}
		return res
	}
	L := make([][]int32, n+1)
	for i := range L {
		L[i] = make([]int32, m+1)
	}
	for i := n - 1; i >= 0; i-- {
		for j := m - 1; j >= 0; j-- {
			if x[i].Cmp == y[j].Cmp {
				L[i][j] = L[i+1][j+1] + 1
			} else if L[i+1][j] >= L[i][j+1] {
				L[i][j] = L[i+1][j]
			} else {
				L[i][j] = L[i][j+1]
			}
		}
	}
	res := []diffOp{}
	var dels, adds []*lineRec
	flush := func() {
		used := make([]bool, len(adds))
		for _, d := range dels {
			paired := false
			for k, ad := range adds {
				if !used[k] && ad.Norm == d.Norm {
					used[k] = true
					res = append(res, diffOp{"chg", d, ad})
					paired = true
					break
				}
			}
			if !paired {
				res = append(res, diffOp{"del", d, nil})
			}
		}
		for k, ad := range adds {
			if !used[k] {
				res = append(res, diffOp{"add", nil, ad})
			}
		}
		dels, adds = nil, nil
	}
	i, j := 0, 0
	for i < n && j < m {
		switch {
		case x[i].Cmp == y[j].Cmp:
			flush()
			i++
			j++
		case L[i+1][j] >= L[i][j+1]:
			dels = append(dels, &x[i])
			i++
		default:
			adds = append(adds, &y[j])
			j++
		}
	}
	for ; i < n; i++ {
		dels = append(dels, &x[i])
	}
	for ; j < m; j++ {
		adds = append(adds, &y[j])
	}
	flush()
	return res
}

// ---------------------------------------------------------------- source facts

type srcFacts struct {
	src       string
	idx       map[string]string // flat name -> pristine source path
	overwrite map[string]bool
	ubuntuCp  map[string]bool
	ignore    map[string][]string
	manifest  map[string]map[string]bool
	guardMemo map[string]map[string]bool
}

func newSrcFacts(src string) *srcFacts {
	s := &srcFacts{src: src, idx: sourceIndex(src), overwrite: map[string]bool{}, ubuntuCp: map[string]bool{}, ignore: map[string][]string{}, manifest: map[string]map[string]bool{}, guardMemo: map[string]map[string]bool{}}
	for _, n := range readListFile(filepath.Join(src, "dists", "overwrite")) {
		s.overwrite[n] = true
	}
	for _, f := range listFiles(filepath.Join(src, "dists", "ubuntu")) {
		s.ubuntuCp[f] = true
	}
	for _, d := range append([]string{"main"}, Dists...) {
		s.ignore[d] = readListFile(filepath.Join(src, "dists", "ignore", d+".ignore"))
		s.manifest[d] = map[string]bool{}
		for _, n := range readListFile(filepath.Join(src, "dists", "flags", d+".flags")) {
			s.manifest[d][n] = true
		}
	}
	return s
}

func relevantFilter(f string, opt string) bool {
	switch opt {
	case "abi":
		return f == "abi3" || f == "abi4"
	case "ver":
		return strings.HasPrefix(f, "apparmor")
	case "dist":
		for _, d := range Dists {
			if f == d {
				return true
			}
		}
		return f == "apt" || f == "pacman" || f == "zypper"
	}
	return false
}

// guarded returns the norms of the lines of a source text that an only/exclude
// directive with a filter relevant to opt guards (inline rule or whole paragraph).
func guardedNorms(text, opt string) map[string]bool {
	res := map[string]bool{}
	inPara := false
	for _, it := range Scan(text) {
		if it.T == "blank" {
			inPara = false
			continue
		}
		isFilter := it.T == "dir" && (it.DKind == "only" || it.DKind == "exclude")
		rel := false
		if isFilter {
			for _, a := range it.Args {
				if relevantFilter(a, opt) {
					rel = true
				}
			}
		}
		switch {
		case isFilter && it.Inline && rel:
			res[normOf(it)] = true
		case isFilter && !it.Inline && rel:
			inPara = true
		case inPara:
			res[normOf(it)] = true
		}
		if inPara && !isFilter {
			res[normOf(it)] = true
		}
	}
	return res
}

func (s *srcFacts) guardSet(file, opt string) map[string]bool {
	k := file + "|" + opt
	if g, ok := s.guardMemo[k]; ok {
		return g
	}
	res := map[string]bool{}
	var visit func(name string, seen map[string]bool)
	visit = func(name string, seen map[string]bool) {
		if seen[name] {
			return
		}
		seen[name] = true
		p, ok := s.idx[strings.TrimSuffix(name, ".apparmor.d")]
		if !ok {
			return
		}
		t, err := os.ReadFile(p)
		if err != nil {
			return
		}
		for n := range guardedNorms(string(t), opt) {
			res[n] = true
		}
		for _, tg := range stackTargets(string(t)) {
			visit(tg, seen)
		}
	}
	visit(file, map[string]bool{})
	s.guardMemo[k] = res
	return res
}

func (s *srcFacts) ignoredBy(file string, dists ...string) bool {
	base := strings.TrimSuffix(filepath.Base(file), ".apparmor.d")
	sp := s.idx[strings.TrimSuffix(file, ".apparmor.d")]
	rel := ""
	if sp != "" {
		rel, _ = filepath.Rel(s.src, sp)
	}
	for _, d := range dists {
		for _, en := range s.ignore[d] {
			if strings.HasPrefix(en, "apparmor.d/") {
				if rel != "" && (rel == en || strings.HasPrefix(rel, strings.TrimSuffix(en, "/")+"/")) {
					return true
				}
			} else if en == base || en == filepath.Base(file) {
				return true
			}
		}
	}
	return false
}

var configureRemoved = map[string]bool{"abstractions/devices-usb-read": true, "abstractions/devices-usb": true, "abstractions/nameservice-strict": true, "tunables/multiarch.d/base": true, "wg": true}

func execCmdErr(name string, args ...string) error {
	if len(args) > 1 {
		_ = os.MkdirAll(strings.TrimSuffix(args[len(args)-1], "/"), 0o755)
	}
	_, err := execCmd(name, args...)
	return err
}

func cfgRec(c Cfg) map[string]any {
	return map[string]any{"dist": c.Dist, "ver": c.Ver}
}

// fclass: what the source data says about an output entry for the switched option (a list of facts).
func (s *srcFacts) fclass(tree, file, opt string, a, b Cfg) []string {
	res := []string{}
	if tree == "systemd" {
		return []string{"systemd"}
	}
	base := strings.TrimSuffix(file, ".apparmor.d")
	switch opt {
	case "abi":
		if s.overwrite[base] || strings.HasPrefix(file, "disable/") || file == "disable" {
			res = append(res, "overwrite")
		}
	case "ver":
		// source facts only: whether the configure step acts on them for the two configurations is Ortho's business
		if configureRemoved[file] {
			res = append(res, "upstreamed")
		}
		if s.ubuntuCp[file] {
			res = append(res, "ubuntudir")
		}
	case "dist":
		if s.ubuntuCp[file] {
			res = append(res, "ubuntudir")
		}
		if s.manifest[a.Dist][base] || s.manifest[b.Dist][base] {
			res = append(res, "manifest")
		}
		if s.ignoredBy(file, a.Dist, b.Dist) {
			res = append(res, "ignore")
		}
	case "full":
		if sp, ok := s.idx[base]; ok && strings.Contains(sp, "/groups/_full/") {
			res = append(res, "fsp")
		}
		if file == "tunables/multiarch.d/profiles" || file == "abstractions/gstreamer" {
			res = append(res, "fspedit")
		}
	}
	return res
}

// ---------------------------------------------------------------- pairs

type cfgPair struct {
	A, B Cfg
	Opt  string
}

func neighboursOf(c Cfg) []cfgPair {
	res := []cfgPair{}
	for _, m := range Modes {
		if m != c.Mode {
			d := c
			d.Mode = m
			res = append(res, cfgPair{c, d, "mode"})
		}
	}
	d := c
	d.ABI = 7 - c.ABI
	res = append(res, cfgPair{c, d, "abi"})
	for _, v := range Vers {
		if v != c.Ver {
			d := c
			d.Ver = v
			res = append(res, cfgPair{c, d, "ver"})
		}
	}
	for _, ds := range Dists {
		if ds != c.Dist {
			d := c
			d.Dist = ds
			res = append(res, cfgPair{c, d, "dist"})
		}
	}
	d = c
	d.Full = !c.Full
	res = append(res, cfgPair{c, d, "full"})
	return res
}

func treeEntries(root string) map[string]string {
	res := map[string]string{}
	_ = filepath.Walk(root, func(p string, info os.FileInfo, err error) error {
		if err != nil || info.IsDir() {
			return nil
		}
		rel, _ := filepath.Rel(root, p)
		if info.Mode()&os.ModeSymlink != 0 {
			l, _ := os.Readlink(p)
			res[rel] = "L:" + l
		} else {
			b, _ := os.ReadFile(p)
			res[rel] = "F:" + sha(b)
		}
		return nil
	})
	return res
}

func checkC18(e *Env, r *Report) {
	f := famSetup(e, r)
	if f == nil {
		return
	}
	facts := newSrcFacts(f.aug)
	// choose pairs
	pairs := []cfgPair{}
	seenP := map[string]bool{}
	addPair := func(p cfgPair) {
		ka, kb := p.A.Key(), p.B.Key()
		if ka > kb {
			ka, kb = kb, ka
			p.A, p.B = p.B, p.A
		}
		if !seenP[ka+"|"+kb] {
			seenP[ka+"|"+kb] = true
			pairs = append(pairs, p)
		}
	}
	if e.Tier == "thorough" {
		for _, c := range AllCfgs() {
			for _, p := range neighboursOf(c) {
				addPair(p)
			}
		}
	} else {
		base := quickCfgs(e.Seed)
		for i, c := range base {
			nb := neighboursOf(c)
			// two neighbours per base configuration, rotating over the options
			addPair(nb[(i*3+int(e.Seed))%len(nb)])
			addPair(nb[(i*5+2+int(e.Seed))%len(nb)])
		}
		// always one pair per option on the project's default arch build
		d := DefaultCfg("arch")
		for _, p := range neighboursOf(d) {
			if p.B.Mode == "enforce" || p.Opt == "abi" || p.Opt == "full" || (p.Opt == "ver" && p.B.Ver == "4.0") || (p.Opt == "dist" && p.B.Dist == "debian") {
				addPair(p)
			}
		}
		// and one pair per option on the full-system-policy build: files that only exist there meet the other options
		d.Full = true
		for _, p := range neighboursOf(d) {
			if p.B.Mode == "enforce" || p.Opt == "abi" || (p.Opt == "ver" && p.B.Ver == "4.0") || (p.Opt == "dist" && p.B.Dist == "debian") {
				addPair(p)
			}
		}
	}
	// builds
	need := map[string]Cfg{}
	for _, p := range pairs {
		need[p.A.Key()] = p.A
		need[p.B.Key()] = p.B
	}
	keys := []string{}
	for k := range need {
		keys = append(keys, k)
	}
	sort.Strings(keys)
	type snap struct {
		aa, sd map[string]string
		dir    string
	}
	snaps := map[string]*snap{}
	texts := map[string]string{} // content cache by hash
	builds := make([]*Build, len(keys))
	parallel(len(keys), 8, func(i int) {
		// every second build runs in a directory that served another kind of build before: the drop-ins
		// of the other policy mode, a profile and a disable link are already there
		var pre func(dir string) error
		if i%2 == 1 {
			other := "full"
			if need[keys[i]].Full {
				other = "early"
			}
			pre = func(dir string) error {
				_ = execCmdErr("cp", "-a", filepath.Join(f.aug, "systemd", other)+"/.", filepath.Join(dir, ".build", "systemd")+"/")
				for _, j := range []string{".build/apparmor.d/zz-stale-profile", ".build/apparmor.d/disable/zz-stale", ".build/apparmor.d/abstractions/zz-stale.d/x"} {
					p := filepath.Join(dir, j)
					_ = os.MkdirAll(filepath.Dir(p), 0o755)
					_ = os.WriteFile(p, []byte("stale\n"), 0o644)
				}
				return nil
			}
		}
		builds[i] = e.RunPrebuild(need[keys[i]], BuildOpts{Src: f.aug, Tag: "aug", NoCache: true, PreRun: pre})
	})
	for i, k := range keys {
		b := builds[i]
		if b.Err != nil {
			r.Fatal = b.Err.Error()
			return
		}
		s := &snap{aa: treeEntries(filepath.Join(b.Out, "apparmor.d")), sd: treeEntries(filepath.Join(b.Out, "systemd")), dir: b.Out}
		for rel, h := range s.aa {
			if strings.HasPrefix(h, "F:") {
				if _, ok := texts[h]; !ok {
					t, _ := os.ReadFile(filepath.Join(b.Out, "apparmor.d", rel))
					texts[h] = string(t)
				}
			}
		}
		for rel, h := range s.sd {
			if strings.HasPrefix(h, "F:") {
				if _, ok := texts[h]; !ok {
					t, _ := os.ReadFile(filepath.Join(b.Out, "systemd", rel))
					texts[h] = string(t)
				}
			}
		}
		snaps[k] = s
		b.Drop()
	}
	recs := []any{}
	itemCache := map[string][]lineRec{}
	items := func(h string) []lineRec {
		if v, ok := itemCache[h]; ok {
			return v
		}
		v := lineItems(texts[h])
		itemCache[h] = v
		return v
	}
	nFiles, nSame, nDiffs := 0, 0, 0
	for _, p := range pairs {
		sa, sb := snaps[p.A.Key()], snaps[p.B.Key()]
		recs = append(recs, map[string]any{"ev": "pair", "a": p.A.Key(), "b": p.B.Key(), "opt": p.Opt})
		nd := 0
		for _, tree := range []string{"apparmor.d", "systemd"} {
			ea, eb := sa.aa, sb.aa
			if tree == "systemd" {
				ea, eb = sa.sd, sb.sd
			}
			if tree == "apparmor.d" && p.Opt == "abi" {
				// an overwrite rename (X <-> X.apparmor.d) is governed, but the CONTENT of the renamed
				// profile must still be the same: report the rename, then compare under one name
				canon := func(m map[string]string, other map[string]string, side string) map[string]string {
					out := map[string]string{}
					for n, h := range m {
						base := strings.TrimSuffix(n, ".apparmor.d")
						if base != n && facts.overwrite[base] {
							if _, ok := other[n]; !ok {
								recs = append(recs, map[string]any{"ev": "diff", "opt": p.Opt, "ca": cfgRec(p.A), "cb": cfgRec(p.B), "key": fmt.Sprintf("abi|%s|rename", base), "file": n, "tree": tree,
									"kind": "fileonly", "a": newAItem("none"), "b": newAItem("none"), "guard": false, "fclass": []string{"overwrite"}})
								nd++
								out[base] = h
								continue
							}
						}
						out[n] = h
					}
					return out
				}
				ea2 := canon(ea, eb, "a")
				eb2 := canon(eb, ea, "b")
				ea, eb = ea2, eb2
			}
			names := map[string]bool{}
			for n := range ea {
				names[n] = true
			}
			for n := range eb {
				names[n] = true
			}
			ns := []string{}
			for n := range names {
				ns = append(ns, n)
			}
			sort.Strings(ns)
			for _, n := range ns {
				ha, oka := ea[n]
				hb, okb := eb[n]
				nFiles++
				fc := facts.fclass(tree, n, p.Opt, p.A, p.B)
				none := newAItem("none")
				switch {
				case oka && okb && ha == hb:
					nSame++
				case !oka || !okb:
					side := "a"
					if !oka {
						side = "b"
					}
					recs = append(recs, map[string]any{"ev": "diff", "opt": p.Opt, "ca": cfgRec(p.A), "cb": cfgRec(p.B), "key": fmt.Sprintf("%s|%s|%s|fileonly", p.Opt, fileKey(f, n), side), "file": n, "tree": tree,
						"kind": "fileonly", "a": none, "b": none, "guard": false, "fclass": fc})
					nd++
				case strings.HasPrefix(ha, "L:") || strings.HasPrefix(hb, "L:"):
					recs = append(recs, map[string]any{"ev": "diff", "opt": p.Opt, "ca": cfgRec(p.A), "cb": cfgRec(p.B), "key": fmt.Sprintf("%s|%s|link", p.Opt, n), "file": n, "tree": tree,
						"kind": "fileonly", "a": none, "b": none, "guard": false, "fclass": fc, "a_raw": ha, "b_raw": hb})
					nd++
				default:
					g := facts.guardSet(n, p.Opt)
					for _, op := range diffLines(items(ha), items(hb)) {
						ev := map[string]any{"ev": "diff", "opt": p.Opt, "ca": cfgRec(p.A), "cb": cfgRec(p.B), "file": n, "tree": tree, "kind": op.Kind, "fclass": fc, "a": none, "b": none, "guard": false}
						raw := ""
						if op.A != nil {
							ev["a"] = op.A.A
							ev["a_raw"] = op.A.Raw
							raw = op.A.Raw
							if g[op.A.Norm] {
								ev["guard"] = true
							}
						}
						if op.B != nil {
							ev["b"] = op.B.A
							ev["b_raw"] = op.B.Raw
							if raw == "" {
								raw = op.B.Raw
							}
							if g[op.B.Norm] {
								ev["guard"] = true
							}
						}
						ev["key"] = fmt.Sprintf("%s|%s|%s|%s", p.Opt, fileKey(f, n), op.Kind, strings.TrimSpace(raw))
						recs = append(recs, ev)
						nd++
					}
				}
			}
		}
		recs = append(recs, map[string]any{"ev": "pairend", "ndiff": nd})
		nDiffs += nd
	}
	r.Coverage["pairs"] = len(pairs)
	r.Coverage["builds"] = len(keys)
	r.Coverage["entries_compared"] = nFiles
	r.Coverage["entries_identical"] = nSame
	r.Coverage["differences_judged"] = nDiffs
	tp := filepath.Join(e.Scratch, fmt.Sprintf("ortho-%d.ndjson", time.Now().UnixNano()))
	if err := writeNDJSON(tp, recs); err != nil {
		r.Fatal = err.Error()
		return
	}
	res, err := e.RunTLC(TLCOpts{Module: "OrthoTrace", Workers: 1, Timeout: 30 * time.Minute, Env: map[string]string{"VERIF_TRACE": tp}})
	if err != nil {
		r.Fatal = err.Error()
		return
	}
	r.AddTLC(res)
	if !res.Healthy() {
		r.Fatal = fmt.Sprintf("OrthoTrace did not complete: %s %s", res.Err, tail(res.Out, 1500))
		return
	}
	r.Traces += len(pairs)
	for _, p := range res.PrintsWithPrefix("VIOL") {
		var x struct {
			Key string          `json:"key"`
			A   string          `json:"a"`
			B   string          `json:"b"`
			Opt string          `json:"opt"`
			D   json.RawMessage `json:"d"`
		}
		if err := json.Unmarshal([]byte(p), &x); err != nil {
			r.Fatal = "bad VIOL line"
			return
		}
		r.Violate("C18|"+x.Key, fmt.Sprintf("builds %s and %s differ only in %s but differ in a line/entry that option does not govern", x.A, x.B, x.Opt),
			map[string]any{"a": x.A, "b": x.B, "opt": x.Opt, "difference": x.D})
	}
	for _, p := range res.PrintsWithPrefix("DRIFT") {
		r.Drift = append(r.Drift, p)
	}
	for _, rec := range recs {
		if m, ok := rec.(map[string]any); ok && m["ev"] == "diff" {
			r.Sample(m)
			break
		}
	}
}
