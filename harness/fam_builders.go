package main

// Build-stage family (Builders.tla): serves C17, C05, the syntactic part of
// C01 and the per-builder orthogonality part of C18.
//
//  model phase : TLC explores MC_Builders (all chains x bounded abstract files)
//                and prints every behaviour (BEH) and every lead (LEAD)
//  replay      : every distinct abstract source file is concretised into a real
//                profile, added to a copy of the real tree, and built by the REAL
//                prebuild binary for the chosen configurations
//  field       : the same builds give hook events for every shipped file
//  trace phase : episodes -> BuildersTrace (TLC): PropTrace verdicts, ConfTrace drift

import (
	"encoding/json"
	"fmt"
	"os"
	"path/filepath"
	"sort"
	"strings"
	"time"
)

// AItem is the abstract item of Builders.tla (uniform record).
type AItem struct {
	T     string   `json:"t"`
	Flags []string `json:"flags"`
	NFl   int      `json:"nfl"`
	Shape string   `json:"shape"`
	Sub   bool     `json:"sub"`
	Perm  string   `json:"perm"`
	Tgt   bool     `json:"tgt"`
	K     string   `json:"k"`
	Bare  bool     `json:"bare"`
	Cmted bool     `json:"cmted"`
	V     int      `json:"v"`
	Rest  string   `json:"rest"`
}

func newAItem(t string) AItem { return AItem{T: t, Flags: []string{}, Shape: "ok"} }

// abstractText projects policy text to the abstract items of the family, plus a
// trailing "seg" item hashing every line that is not interpreted.
func abstractText(text string) []AItem {
	res := []AItem{}
	var seg strings.Builder
	for _, it := range Scan(text) {
		switch {
		case it.T == "hdr":
			a := newAItem("hdr")
			a.Flags = append([]string{}, it.Flags...)
			if it.NFlags > 0 {
				a.NFl = it.NFlags
			}
			a.Shape = it.Shape
			a.Sub = it.Depth > 0
			a.Rest = shaS(it.Kw + "|" + it.Name + "|" + strings.Join(it.Att, " ") + "|" + it.Xattrs + "|" + it.Trail)
			res = append(res, a)
		case it.T == "cmt" && it.Decoy:
			a := newAItem("decoy")
			cl := reFlagsClause.FindAllStringSubmatch(it.Raw, -1)
			a.NFl = len(cl)
			for _, c := range cl {
				for _, x := range strings.Split(c[1], ",") {
					if x = strings.TrimSpace(x); x != "" {
						a.Flags = append(a.Flags, x)
					}
				}
			}
			sort.Strings(a.Flags)
			if !strings.HasSuffix(it.Raw, " {") {
				a.Shape = "nospace"
			}
			a.Rest = shaS(strings.TrimSpace(reFlagsClause.ReplaceAllString(strings.TrimSuffix(it.Raw, "{"), "")))
			res = append(res, a)
		case it.T == "exec":
			a := newAItem("exec")
			a.Perm = it.Perms
			a.Tgt = it.Target != ""
			a.Rest = shaS(strings.Join(it.Quals, " ") + "|" + fmt.Sprint(it.Owner) + "|" + it.Path + "|" + it.Target + "|" + it.Trail)
			res = append(res, a)
		case it.T == "dir" && it.Inline && it.Body != nil && it.Body.T == "exec":
			a := newAItem("exec")
			a.Perm = it.Body.Perms
			a.Tgt = it.Body.Target != ""
			a.Rest = shaS(strings.Join(it.Body.Quals, " ") + "|" + fmt.Sprint(it.Body.Owner) + "|" + it.Body.Path + "|" + it.Body.Target + "|#aa:" + it.DKind + " " + strings.Join(it.Args, " "))
			res = append(res, a)
		case it.T == "cmt" && it.Cmted && it.Kind == "exec":
			a := newAItem("exec")
			a.Perm = it.Perms
			a.Tgt = it.Target != ""
			a.Cmted = true
			a.Rest = shaS("#|" + it.Path + "|" + it.Target)
			res = append(res, a)
		case it.T == "a4":
			a := newAItem("a4")
			a.K = it.Kind
			a.Bare = strings.Contains(it.Raw, "  "+it.Kind) && len(it.Quals) == 0
			a.Rest = shaS(strings.TrimSpace(it.Raw))
			res = append(res, a)
		case it.T == "cmt" && it.Cmted:
			a := newAItem("a4")
			a.K = it.Kind
			a.Cmted = true
			a.Bare = strings.Contains(it.Raw, "  # "+it.Kind)
			body := strings.TrimSpace(strings.TrimPrefix(strings.TrimSpace(it.Raw), "#"))
			a.Rest = shaS(body)
			res = append(res, a)
		case it.T == "abi":
			a := newAItem("abi")
			switch {
			case strings.Contains(it.Path, "abi/3.0"):
				a.V = 3
			case strings.Contains(it.Path, "abi/4.0"):
				a.V = 4
			}
			res = append(res, a)
		default:
			seg.WriteString(it.Raw)
			seg.WriteString("\n")
		}
	}
	s := newAItem("seg")
	s.Rest = shaS(seg.String())
	res = append(res, s)
	return res
}

// canon renames the rest-hashes of an episode to h1,h2.. in order of first
// appearance, so that episodes with the same equality structure coincide.
type canon struct{ m map[string]string }

func (c *canon) items(in []AItem) []AItem {
	out := make([]AItem, len(in))
	for i, it := range in {
		if it.Rest != "" {
			n, ok := c.m[it.Rest]
			if !ok {
				n = fmt.Sprintf("h%d", len(c.m)+1)
				c.m[it.Rest] = n
			}
			it.Rest = n
		}
		out[i] = it
	}
	return out
}

// ---------------------------------------------------------------- concretiser

type genFile struct {
	Name string
	Abs  []map[string]any // abstract source as TLC printed it
	Text string
	Key  string
}

func flagsClause(fl []string) string {
	if len(fl) == 0 {
		return ""
	}
	return " flags=(" + strings.Join(fl, ",") + ")"
}

// concretise writes a real profile for an abstract file printed by TLC.
func concretise(name string, abs []map[string]any) string {
	var b strings.Builder
	b.WriteString("# generated for verification\n\nabi <abi/4.0>,\n\ninclude <tunables/global>\n\n")
	b.WriteString("@{exec_path} = @{bin}/" + name + "\n")
	open := 0
	sub := 0
	execN := 0
	closeSub := func() {
		if open == 2 {
			b.WriteString(fmt.Sprintf("    include if exists <local/%s_sub%d>\n  }\n\n", name, sub))
			open = 1
		}
	}
	for _, it := range abs {
		t := str(it["t"])
		ind := strings.Repeat("  ", open)
		switch t {
		case "hdr":
			fl := toStrs(it["flags"])
			sort.Strings(fl)
			if it["sub"] == true {
				closeSub()
				sub++
				// every second header also carries extended attributes (another parenthesised clause of the header)
				xa := ""
				if sub%2 == 0 {
					xa = " xattrs=(user.tag=demo)"
				}
				b.WriteString(fmt.Sprintf("  profile sub%d%s%s {\n    include <abstractions/base>\n\n", sub, xa, flagsClause(fl)))
				open = 2
			} else {
				xa := ""
				if shaS(name)[0]%2 == 0 {
					xa = " xattrs=(user.tag=demo security.kind=x)"
				}
				b.WriteString(fmt.Sprintf("profile %s @{exec_path}%s%s {\n  include <abstractions/base>\n\n  @{exec_path} mr,\n\n", name, xa, flagsClause(fl)))
				open = 1
			}
		case "decoy":
			b.WriteString(ind + "# profile pivoted {\n")
		case "exec":
			execN++
			tg := ""
			if it["tgt"] == true {
				tg = " -> tgt"
			}
			b.WriteString(fmt.Sprintf("%s/usr/bin/t%d %s%s,\n", ind, execN, str(it["perm"]), tg))
		case "a4":
			k := str(it["k"])
			body := map[string]string{"userns": "userns,", "mqueue": "mqueue r type=posix /,", "io_uring": "io_uring sqpoll,", "all": "all,"}[k]
			if it["bare"] == true {
				b.WriteString(ind + body + "\n")
			} else {
				b.WriteString(ind + "audit " + body + "\n")
			}
		case "abi":
			// the abi line is always written in the preamble
		}
	}
	closeSub()
	if open >= 1 {
		b.WriteString(fmt.Sprintf("\n  include if exists <local/%s>\n}\n", name))
	}
	return b.String()
}

// ---------------------------------------------------------------- the driver

type famBuilders struct {
	e       *Env
	r       *Report
	extPath string
	ext     *ExtTables
	perLine string
	gen     []genFile
	aug     string // augmented source tree
	leads   map[string]int

	lastRecs []any

	hosts          map[string]bool // files carrying stack/exec directives
	fullCompileCfg map[string]bool
}

func hdrPerLineSetting(e *Env) string {
	b, err := os.ReadFile(filepath.Join(e.Verif, "spec", "model_settings.json"))
	if err != nil {
		return "0"
	}
	m := map[string]any{}
	_ = json.Unmarshal(b, &m)
	if m["HdrPerLine"] == true {
		return "1"
	}
	return "0"
}

func newFamBuilders(e *Env, r *Report) (*famBuilders, error) {
	f := &famBuilders{e: e, r: r, leads: map[string]int{}}
	if err := e.BuildTools(); err != nil {
		return nil, err
	}
	if err := e.CopySource(); err != nil {
		return nil, err
	}
	// every permission token that occurs on an exec rule of the shipped tree is probed too
	toks := map[string]bool{}
	for _, fn := range listFiles(filepath.Join(e.Src, "apparmor.d")) {
		b, _ := os.ReadFile(filepath.Join(e.Src, "apparmor.d", fn))
		for _, it := range Scan(string(b)) {
			if it.T == "exec" {
				toks[it.Perms] = true
			}
			if it.T == "dir" && it.Body != nil && it.Body.T == "exec" {
				toks[it.Body.Perms] = true
			}
		}
	}
	p, ext, err := e.Extract(toks)
	if err != nil {
		return nil, err
	}
	f.extPath, f.ext = p, ext
	f.perLine = hdrPerLineSetting(e)
	return f, nil
}

// modelPhase runs TLC on the bounded universe; returns the distinct abstract sources.
func (f *famBuilders) modelPhase() error {
	res, err := f.e.RunTLC(TLCOpts{Module: "MC_Builders", Workers: 8, Timeout: 10 * time.Minute,
		Env: map[string]string{"VERIF_EXT": f.extPath, "VERIF_HDR_PER_LINE": f.perLine}, Coverage: f.e.Tier == "thorough"})
	if err != nil {
		return err
	}
	f.r.AddTLC(res)
	if !res.Healthy() {
		return fmt.Errorf("MC_Builders did not complete: %s %s", res.Err, tail(res.Out, 1500))
	}
	seen := map[string]bool{}
	for _, p := range res.PrintsWithPrefix("BEH") {
		var beh struct {
			Src []map[string]any `json:"src"`
		}
		if err := json.Unmarshal([]byte(p), &beh); err != nil {
			return fmt.Errorf("bad BEH line: %v", err)
		}
		k, _ := json.Marshal(beh.Src)
		if seen[string(k)] {
			continue
		}
		seen[string(k)] = true
		name := fmt.Sprintf("vgen-%03d", len(f.gen)+1)
		f.gen = append(f.gen, genFile{Name: name, Abs: beh.Src, Key: shaS(string(k)), Text: concretise(name, beh.Src)})
	}
	for _, p := range res.PrintsWithPrefix("LEAD") {
		prop := strings.SplitN(p, " ", 2)[0]
		f.leads[prop]++
	}
	f.r.Coverage["model_behaviours"] = len(res.PrintsWithPrefix("BEH"))
	f.r.Coverage["model_leads"] = f.leads
	f.r.Coverage["generated_files"] = len(f.gen)
	if len(f.gen) == 0 {
		return fmt.Errorf("model phase produced no behaviour")
	}
	// strict design check: the model (configured as the code is) must satisfy the reference
	// semantics on the whole universe; a failure is a lead / drift, never a verdict
	st, err := f.e.RunTLC(TLCOpts{Module: "MC_Builders", Cfg: "MC_Builders_strict.cfg", Workers: 8, Timeout: 10 * time.Minute,
		Env: map[string]string{"VERIF_EXT": f.extPath, "VERIF_HDR_PER_LINE": f.perLine}})
	if err == nil {
		f.r.AddTLC(st)
		switch {
		case st.Healthy():
			f.r.Coverage["design_check"] = "C17, C05, C18 hold on the model for the whole bounded universe"
		case st.InvViol != "":
			f.r.Coverage["design_check"] = "model violates " + st.InvViol
			f.r.Drift = append(f.r.Drift, "design check: the build-stage model, with the chains and token tables extracted from the current code, violates "+st.InvViol)
		}
	}
	return nil
}

// bindingDemo shows that the trace validation is bound to the recorded data: one recorded
// field is corrupted, and one hook event is dropped; both traces must be rejected.
func (f *famBuilders) bindingDemo() error {
	if len(f.lastRecs) == 0 {
		return nil
	}
	run := func(recs []any) (viol, drift int, err error) {
		tp := filepath.Join(f.e.Scratch, fmt.Sprintf("binding-%d.ndjson", time.Now().UnixNano()))
		if err := writeNDJSON(tp, recs); err != nil {
			return 0, 0, err
		}
		res, err := f.e.RunTLC(TLCOpts{Module: "BuildersTrace", Workers: 1, Timeout: 10 * time.Minute,
			Env: map[string]string{"VERIF_EXT": f.extPath, "VERIF_HDR_PER_LINE": f.perLine, "VERIF_TRACE": tp}})
		if err != nil {
			return 0, 0, err
		}
		return len(res.PrintsWithPrefix("VIOL")), len(res.PrintsWithPrefix("DRIFT")), nil
	}
	// keep the demonstration small: the first 40 episodes
	n := 0
	cut := len(f.lastRecs)
	for i, rec := range f.lastRecs {
		if m, ok := rec.(map[string]any); ok && m["ev"] == "done" {
			n++
			if n == 40 {
				cut = i + 1
				break
			}
		}
	}
	base := f.lastRecs[:cut]
	v0, d0, err := run(base)
	if err != nil {
		return err
	}
	// (1) corrupt one recorded field: the permission token / flags of the first changed step
	corrupted := make([]any, len(base))
	copy(corrupted, base)
	done := false
	for i, rec := range corrupted {
		m, ok := rec.(map[string]any)
		if !ok || m["ev"] != "builder" || m["same"] == true || done {
			continue
		}
		items, _ := m["after"].([]AItem)
		if len(items) == 0 {
			continue
		}
		cp := append([]AItem{}, items...)
		for k := range cp {
			if cp[k].T == "hdr" {
				cp[k].Flags = append(append([]string{}, cp[k].Flags...), "kill")
				cp[k].NFl = 1
				done = true
				break
			}
			if cp[k].T == "exec" {
				cp[k].Perm = cp[k].Perm + "Ux"
				done = true
				break
			}
		}
		nm := map[string]any{}
		for k, v := range m {
			nm[k] = v
		}
		nm["after"] = cp
		corrupted[i] = nm
	}
	v1, d1, err := run(corrupted)
	if err != nil {
		return err
	}
	// (2) drop one hook event
	dropped := []any{}
	skipped := false
	for _, rec := range base {
		if m, ok := rec.(map[string]any); ok && m["ev"] == "builder" && !skipped {
			skipped = true
			continue
		}
		dropped = append(dropped, rec)
	}
	v2, d2, err := run(dropped)
	if err != nil {
		return err
	}
	f.r.Coverage["binding_demonstration"] = map[string]any{"baseline": []int{v0, d0}, "corrupted_field": []int{v1, d1}, "dropped_event": []int{v2, d2}}
	if !done || v1+d1 <= v0+d0 || v2+d2 <= v0+d0 {
		return fmt.Errorf("binding demonstration failed: corrupted trace %d/%d, dropped event %d/%d, baseline %d/%d (VIOL/DRIFT)", v1, d1, v2, d2, v0, d0)
	}
	return nil
}

// augment copies the source and adds the generated group.
func (f *famBuilders) augment() error {
	f.aug = filepath.Join(f.e.Scratch, "aug")
	if out, err := execCmd("cp", "-a", f.e.Src, f.aug); err != nil {
		return fmt.Errorf("cp aug: %v %s", err, out)
	}
	dir := filepath.Join(f.aug, "apparmor.d", "groups", "vgen")
	if err := os.MkdirAll(dir, 0o755); err != nil {
		return err
	}
	for _, g := range f.gen {
		if err := os.WriteFile(filepath.Join(dir, g.Name), []byte(g.Text), 0o644); err != nil {
			return err
		}
	}
	for n, t := range crossGenFiles() {
		if err := os.WriteFile(filepath.Join(dir, n), []byte(t), 0o644); err != nil {
			return err
		}
	}
	// manifests: a generated profile listed in the common manifest AND, with other flags, in every
	// distribution's (the distribution's entry wins); the last entry of each manifest has no final newline
	appendNoNL := func(p, lines string) error {
		b, _ := os.ReadFile(p)
		t := strings.TrimRight(string(b), "\n")
		if t != "" {
			t += "\n"
		}
		return os.WriteFile(p, []byte(t+lines), 0o644)
	}
	if err := appendNoNL(filepath.Join(f.aug, "dists", "flags", "main.flags"), "aa-vgen-hist-only1 complain\nzz-vgen-hist-only2 mediate_deleted,complain"); err != nil {
		return err
	}
	for _, d := range Dists {
		if err := appendNoNL(filepath.Join(f.aug, "dists", "flags", d+".flags"), "aa-vgen-hist-only1 attach_disconnected"); err != nil {
			return err
		}
	}
	return nil
}

// crossGenFiles: hand-shaped generated profiles for interactions between the build
// stage and the directive stage (a host that stacks, with X, a profile that sorts
// AFTER it and therefore is pasted in before any builder has touched it).
func crossGenFiles() map[string]string {
	mk := func(name, body string) string {
		return "abi <abi/4.0>,\n\ninclude <tunables/global>\n\n@{exec_path} = @{bin}/" + name + "\nprofile " + name + " @{exec_path} {\n  include <abstractions/base>\n\n  @{exec_path} mr,\n\n" + body + "\n  include if exists <local/" + name + ">\n}\n"
	}
	pre := func(name, preamble, header, body string) string {
		return "abi <abi/4.0>,\n\ninclude <tunables/global>\n\n" + preamble + "profile " + name + " " + header + "{\n  include <abstractions/base>\n\n  @{exec_path} mr,\n\n" + body + "\n  include if exists <local/" + name + ">\n}\n"
	}
	res := map[string]string{
		"aa-vgen-xhost":   mk("aa-vgen-xhost", "  /usr/bin/own rPUx,\n\n  #aa:stack X zz-vgen-xtarget\n"),
		"zz-vgen-xtarget": mk("zz-vgen-xtarget", "  /usr/bin/late rPUx,\n  /usr/bin/late2 rUx,\n  /usr/bin/keep rPx,\n"),
		"zz-vgen-xhost":   mk("zz-vgen-xhost", "  #aa:stack X aa-vgen-xtarget\n"),
		"aa-vgen-xtarget": mk("aa-vgen-xtarget", "  /usr/bin/early rPUx,\n"),

		// history probes (C02/C06/C13): a profile that appends to built-in tunables, then one that uses them
		"aa-vgen-hist-append": pre("aa-vgen-hist-append", "@{lib} += /opt/vendor/lib\n@{bin} += /opt/vendor/bin\n@{exec_path} = @{bin}/aa-vgen-hist-append\n", "@{exec_path} ", "  /etc/hist r,\n"),
		"zz-vgen-hist-uselib": pre("zz-vgen-hist-uselib", "@{exec_path} = @{lib}/zz-vgen-hist-uselib @{bin}/zz2-vgen\n", "@{exec_path} ", "  /etc/hist r,\n"),
		// the same value twice in @{exec_path} (by = and by +=) next to distinct ones
		"aa-vgen-hist-dupval": pre("aa-vgen-hist-dupval", "@{exec_path} = @{bin}/aa-vgen-hist-dupval @{lib}/dupval/dupval\n@{exec_path} += @{lib}/dupval/dupval @{lib}/@{multiarch}/dupval /opt/dupval/bin/dupval\n", "@{exec_path} ", "  /etc/hist r,\n"),
		// two profiles with textually identical definitions over different local variables
		"aa-vgen-hist-name1": pre("aa-vgen-hist-name1", "@{name} = alpha\n@{lib_dirs} = /opt/@{name}\n@{exec_path} = @{lib_dirs}/@{name}\n", "@{exec_path} ", "  /etc/hist r,\n"),
		"zz-vgen-hist-name2": pre("zz-vgen-hist-name2", "@{name} = beta\n@{lib_dirs} = /opt/@{name}\n@{exec_path} = @{lib_dirs}/@{name}\n", "@{exec_path} ", "  /etc/hist r,\n"),
		// the same filter directive at two indentations, in two files and inside one file
		"aa-vgen-hist-only1": mk("aa-vgen-hist-only1", "  #aa:only arch\n  /etc/only-arch r,\n\n  #aa:exclude apt\n  /etc/not-apt r,\n\n  /etc/always r,\n"),
		"zz-vgen-hist-only2": mk("zz-vgen-hist-only2", "  /etc/always r,\n\n  profile sub {\n    include <abstractions/base>\n\n    #aa:only arch\n    /etc/only-arch r,\n\n    #aa:exclude apt\n    /etc/not-apt r,\n\n    /etc/sub r,\n\n    include if exists <local/zz-vgen-hist-only2_sub>\n  }\n"),
		// stack without X, then with X, of the same target whose rules include a path containing "x,"
		"aa-vgen-hist-stack":  mk("aa-vgen-hist-stack", "  /etc/host1 r,\n\n  #aa:stack zz-vgen-hist-target\n"),
		"bb-vgen-hist-stackx": mk("bb-vgen-hist-stackx", "  /etc/host2 r,\n\n  #aa:stack X zz-vgen-hist-target zz-vgen-xtarget\n"),
		"zz-vgen-hist-target": mk("zz-vgen-hist-target", "  capability sys_admin,\n\n  /usr/bin/tool rPx,\n  /usr/bin/helper rix,\n  /boot/{linux,initrd} r,\n  /etc/target r,\n\n  #aa:dbus own bus=system name=org.vgen.Target\n"),
		// name relations: a stacked / exec'd profile whose name is a proper prefix of one named before it
		"zz-vgen-hist-target-ext": mk("zz-vgen-hist-target-ext", "  capability sys_ptrace,\n\n  /etc/target-ext r,\n  /usr/bin/ext-tool rPx,\n  owner @{tmp}/$vgen@{rand6} rw,\n  owner /var/tmp/$vgen-$1/100%/** r, # costs $5, 100%\n\n  #aa:exec zz-vgen-hist-uselib\n"),
		"dd-vgen-hist-stackpre":   mk("dd-vgen-hist-stackpre", "  /etc/host3 r,\n\n  #aa:stack zz-vgen-hist-target-ext zz-vgen-hist-target\n"),
		"ee-vgen-hist-stackpre2":  mk("ee-vgen-hist-stackpre2", "  /etc/host4 r,\n\n  #aa:stack X zz-vgen-hist-target-ext\n\n  /etc/host4b r,\n\n  #aa:stack zz-vgen-hist-target\n"),
		"zz-vgen-hist-uselib-ext": pre("zz-vgen-hist-uselib-ext", "@{exec_path} = @{lib}/zz-vgen-hist-uselib-ext\n", "@{exec_path} ", "  /etc/hist r,\n"),
		"dd-vgen-hist-execpre":    mk("dd-vgen-hist-execpre", "  #aa:exec zz-vgen-hist-uselib-ext zz-vgen-hist-uselib\n"),
		// entry points that also carry an exec mode, stacked with and without X
		"zz-vgen-hist-entry-ix": pre("zz-vgen-hist-entry-ix", "@{exec_path} = @{bin}/zz-vgen-hist-entry-ix\n", "@{exec_path} ", "  /etc/entry r,\n  /usr/bin/entry-tool rPx,\n"),
		"ff-vgen-hist-stackix":  mk("ff-vgen-hist-stackix", "  /etc/host5 r,\n\n  #aa:stack X zz-vgen-hist-entry-ix\n"),
		"gg-vgen-hist-stackix":  mk("gg-vgen-hist-stackix", "  /etc/host6 r,\n\n  #aa:stack zz-vgen-hist-entry-ix\n"),
		// an exec directive in a host that already mentions the target's executable literally (reads it)
		"zz-vgen-hist-optexec": pre("zz-vgen-hist-optexec", "@{exec_path} = /opt/vgen/optexec /opt/vgen/optexec-helper\n", "@{exec_path} ", "  /etc/hist r,\n"),
		"ee-vgen-hist-execlit": mk("ee-vgen-hist-execlit", "  /opt/vgen/optexec-helper r,\n  owner @{HOME}/.local/opt/vgen/optexec rw,\n\n  #aa:exec zz-vgen-hist-optexec\n"),
		// one exec directive naming two profiles that share an executable
		"zz-vgen-hist-sharea":    pre("zz-vgen-hist-sharea", "@{exec_path} = /opt/vgen/shared /opt/vgen/only-a\n", "@{exec_path} ", "  /etc/hist r,\n"),
		"zz-vgen-hist-shareb":    pre("zz-vgen-hist-shareb", "@{exec_path} = /opt/vgen/shared /opt/vgen/only-b\n", "@{exec_path} ", "  /etc/hist r,\n"),
		"ff-vgen-hist-execshare": mk("ff-vgen-hist-execshare", "  /etc/host7 r,\n\n  #aa:exec zz-vgen-hist-sharea zz-vgen-hist-shareb\n"),
		// a host with a sub-profile (closed by its own local include) in front of its stack directive
		"hh-vgen-hist-stacksub": mk("hh-vgen-hist-stacksub", "  /etc/host8 r,\n\n  profile sub {\n    include <abstractions/base>\n\n    /etc/sub r,\n\n    include if exists <local/hh-vgen-hist-stacksub_sub>\n  }\n\n  #aa:stack zz-vgen-hist-target-ext\n"),
		// an exec directive whose target has a quoted executable (a path with a blank)
		"zz-vgen-hist-quoted":     pre("zz-vgen-hist-quoted", "@{exec_path} = /opt/vgen/plainexe \"/opt/Vgen App/vgen-app\"\n", "@{exec_path} ", "  /etc/hist r,\n"),
		"gg-vgen-hist-execquoted": mk("gg-vgen-hist-execquoted", "  /etc/host9 r,\n\n  #aa:exec zz-vgen-hist-quoted\n"),
		// a profile whose name holds a character that means something in a regular expression (dvd+rw-format, notepad++)
		"zz-vgen-hist+plus":      mk("zz-vgen-hist+plus", "  /etc/plus r,\n  /usr/bin/plusexec rPx,\n"),
		"gg-vgen-hist-execplus":  mk("gg-vgen-hist-execplus", "  /etc/host10 r,\n\n  #aa:exec zz-vgen-hist+plus\n"),
		"hh-vgen-hist-stackplus": mk("hh-vgen-hist-stackplus", "  /etc/host11 r,\n\n  #aa:stack zz-vgen-hist+plus\n"),
		// a profile indented with tabs (its directive line too): what it is indented with is its own business
		"aa-vgen-hist-tabbed": "abi <abi/4.0>,\n\ninclude <tunables/global>\n\n@{exec_path} = @{bin}/aa-vgen-hist-tabbed\nprofile aa-vgen-hist-tabbed @{exec_path} {\n\tinclude <abstractions/base>\n\n\t@{exec_path} mr,\n\n\t#aa:exec zz-vgen-hist-uselib\n\t#aa:dbus talk bus=session name=org.vgen.Tab label=tabpeer\n\n\tinclude if exists <local/aa-vgen-hist-tabbed>\n}\n",
		// twins: two hosts with the same body, one sorting before the profile they stack and one after it; the stacked
		// profile has a rule line that ends in blanks in front of a line another distribution's filter removes
		"mm-vgen-hist-trail": mk("mm-vgen-hist-trail", "  /etc/mid.conf r,  \n  /etc/guard r, #aa:only whonix\n\n  /etc/after r,\n"),
		"aa-vgen-hist-twin":  mk("aa-vgen-hist-twin", "  /etc/twin r,\n\n  #aa:stack mm-vgen-hist-trail\n"),
		"zz-vgen-hist-twin":  mk("zz-vgen-hist-twin", "  /etc/twin r,\n\n  #aa:stack mm-vgen-hist-trail\n"),
		// exec directives: default, explicit and two-target forms over the same targets
		"aa-vgen-hist-exec1": mk("aa-vgen-hist-exec1", "  #aa:exec zz-vgen-hist-uselib\n"),
		"bb-vgen-hist-exec2": mk("bb-vgen-hist-exec2", "  #aa:exec U zz-vgen-hist-uselib\n\n  /etc/between r,\n"),
		"cc-vgen-hist-exec3": mk("cc-vgen-hist-exec3", "  /etc/before r,\n\n  #aa:exec pu zz-vgen-hist-uselib aa-vgen-hist-name1\n"),
		// dbus directives with names that are patterns, variables, explicit interfaces and paths
		"cc-vgen-hist-dbus": mk("cc-vgen-hist-dbus", "  #aa:dbus own bus=session name=org.a11y.{B,b}us\n  #aa:dbus own bus=system name=org.vgen.Svc path=/org/vgen/Svc interface=org.vgen.Iface interface+=org.vgen.Extra\n  #aa:dbus talk bus=system name=org.gtk.vfs.mountpoint_@{int} label=gvfsd\n  #aa:dbus talk bus=session name=org.vgen.Peer label=vgen-peer interface=org.vgen.PeerIface path=/org/vgen/Peer\n  #aa:dbus common bus=system name=org.freedesktop.{S,s}ecret{,s} label=secretd\n"),
		// the same interfaces given in the other order (interface+= before interface=), and on a talk directive
		"dd-vgen-hist-dbus2": mk("dd-vgen-hist-dbus2", "  #aa:dbus own bus=system name=org.vgen.Svc2 path=/org/vgen/Svc2 interface+=org.vgen.Extra2 interface=org.vgen.Iface2\n  #aa:dbus talk bus=session name=org.vgen.Peer2 label=vgen-peer interface+=org.vgen.PeerExtra2 interface=org.vgen.PeerIface2\n"),
	}
	// the entry point of the -ix target also grants execution (mrix), as 97 shipped profiles do
	res["zz-vgen-hist-entry-ix"] = strings.Replace(res["zz-vgen-hist-entry-ix"], "  @{exec_path} mr,", "  @{exec_path} mrix,", 1)
	return res
}

// stackTargets lists the profiles a source text stacks (transitively resolved by the caller).
func stackTargets(text string) []string {
	res := []string{}
	for _, it := range Scan(text) {
		if it.T == "dir" && it.DKind == "stack" {
			for _, a := range it.Args {
				if a != "X" {
					res = append(res, a)
				}
			}
		}
	}
	return res
}

// finalEvents builds the "final" events of a build: exec rules of every written file
// plus the fsp-source paths of its source and of the sources it stacks.
func (f *famBuilders) finalEvents(b *Build) []any {
	srcIdx := sourceIndex(f.aug)
	srcText := func(name string) string {
		if p, ok := srcIdx[strings.TrimSuffix(name, ".apparmor.d")]; ok {
			if t, err := os.ReadFile(p); err == nil {
				return string(t)
			}
		}
		return ""
	}
	var fspPaths func(name string, seen map[string]bool) []string
	fspPaths = func(name string, seen map[string]bool) []string {
		if seen[name] {
			return nil
		}
		seen[name] = true
		t := srcText(name)
		res := []string{}
		for _, it := range Scan(t) {
			x := it
			if it.T == "dir" && it.Inline && it.Body != nil {
				x = *it.Body
			}
			if x.T == "exec" && x.Target == "" && x.R == "r" && (x.Mode == "PUx" || x.Mode == "Ux") {
				res = append(res, x.Path)
			}
		}
		for _, tg := range stackTargets(t) {
			res = append(res, fspPaths(tg, seen)...)
		}
		return res
	}
	root := filepath.Join(b.Out, "apparmor.d")
	recs := []any{}
	for _, fn := range listFiles(root) {
		fi, err := os.Lstat(filepath.Join(root, fn))
		if err != nil || !fi.Mode().IsRegular() {
			continue
		}
		t, _ := os.ReadFile(filepath.Join(root, fn))
		items := []map[string]any{}
		for _, it := range Scan(string(t)) {
			x := it
			if it.T == "dir" && it.Inline && it.Body != nil {
				x = *it.Body
			}
			if x.T == "exec" {
				items = append(items, map[string]any{"perm": x.Perms, "acc": x.R, "mode": x.Mode, "tgt": x.Target != "", "path": x.Path})
			}
		}
		fsp := fspPaths(fn, map[string]bool{})
		if len(fsp) == 0 {
			continue
		}
		sort.Strings(fsp)
		recs = append(recs, map[string]any{"ev": "final", "id": "F:" + b.Cfg.Key() + ":" + fn, "cfg": b.Cfg, "items": items, "fsp": fsp})
	}
	return recs
}

type episode struct {
	Cfg     Cfg
	Chain   []string
	Src     []AItem
	Steps   []stepRec
	None    []AItem
	HasNone bool
	Orig    []AItem
	HasOrig bool
	Manif   string
	MFlags  []string
	Files   []string
}

type stepRec struct {
	Name  string
	After []AItem
}

// fileSteps groups the builder events of one build by file.
func fileSteps(evs []map[string]any) (order []string, steps map[string][]map[string]any, chain []string) {
	steps = map[string][]map[string]any{}
	for _, ev := range evs {
		switch ev["ev"] {
		case "chain":
			chain = toStrs(ev["builds"])
		case "builder":
			fn := str(ev["file"])
			if _, ok := steps[fn]; !ok {
				order = append(order, fn)
			}
			steps[fn] = append(steps[fn], ev)
		}
	}
	return
}

func relBuildName(p string) string {
	i := strings.Index(p, ".build/apparmor.d/")
	if i >= 0 {
		return p[i+len(".build/apparmor.d/"):]
	}
	return p
}

// manifests reads dists/flags/{main,<dist>}.flags with an independent reader.
func readManifest(src, dist string) map[string][]string {
	res := map[string][]string{}
	for _, n := range []string{"main", dist} {
		b, err := os.ReadFile(filepath.Join(src, "dists", "flags", n+".flags"))
		if err != nil {
			continue
		}
		for _, l := range strings.Split(string(b), "\n") {
			if i := strings.Index(l, "#"); i >= 0 {
				l = l[:i]
			}
			f := strings.Fields(l)
			if len(f) == 0 {
				continue
			}
			fl := []string{}
			if len(f) > 1 {
				fl = strings.Split(f[1], ",")
			}
			res[f[0]] = fl
		}
	}
	return res
}

// sourceIndex maps flat output names to the pristine source file.
func sourceIndex(src string) map[string]string {
	idx := map[string]string{}
	root := filepath.Join(src, "apparmor.d")
	for _, f := range listFiles(root) {
		parts := strings.Split(f, "/")
		switch {
		case parts[0] == "groups" && len(parts) == 3:
			idx[parts[2]] = filepath.Join(root, f)
		case strings.HasPrefix(parts[0], "profiles-") && len(parts) == 2:
			idx[parts[1]] = filepath.Join(root, f)
		default:
			idx[f] = filepath.Join(root, f)
		}
	}
	return idx
}

type finalText struct {
	BuilderStage map[string]string // file -> text after the last builder
}

// collect runs the builds and turns hook events into de-duplicated episodes.
func (f *famBuilders) collect(cfgs []Cfg, withNone bool) ([]*episode, error) {
	type one struct {
		b     *Build
		evs   []map[string]any
		final map[string][]AItem
	}
	all := map[string]*one{}
	need := []Cfg{}
	seenC := map[string]bool{}
	for _, c := range cfgs {
		if !seenC[c.Key()] {
			seenC[c.Key()] = true
			need = append(need, c)
		}
		if withNone && c.Mode != "none" {
			n := c
			n.Mode = "none"
			if !seenC[n.Key()] {
				seenC[n.Key()] = true
				need = append(need, n)
			}
		}
	}
	errs := make([]error, len(need))
	ones := make([]*one, len(need))
	parallel(len(need), 8, func(i int) {
		b := f.e.RunPrebuild(need[i], BuildOpts{Src: f.aug, Tag: "aug"})
		if b.Err != nil {
			errs[i] = b.Err
			return
		}
		evs, err := readEvents(b.Trace)
		if err != nil {
			errs[i] = err
			return
		}
		o := &one{b: b, evs: evs, final: map[string][]AItem{}}
		_, steps, _ := fileSteps(evs)
		for fn, st := range steps {
			o.final[relBuildName(fn)] = abstractText(str(st[len(st)-1]["after"]))
		}
		ones[i] = o
	})
	for i, err := range errs {
		if err != nil {
			return nil, fmt.Errorf("build %s: %v", need[i].Key(), err)
		}
		all[need[i].Key()] = ones[i]
	}
	srcIdx := sourceIndex(f.aug)
	eps := map[string]*episode{}
	order := []string{}
	for _, c := range cfgs {
		o := all[c.Key()]
		manifest := readManifest(f.aug, c.Dist)
		var noneFinal map[string][]AItem
		if withNone {
			n := c
			n.Mode = "none"
			noneFinal = all[n.Key()].final
		}
		ord, steps, chain := fileSteps(o.evs)
		for _, fn := range ord {
			st := steps[fn]
			rel := relBuildName(fn)
			cn := &canon{m: map[string]string{}}
			ep := &episode{Cfg: c, Chain: chain, Files: []string{rel}, Manif: "-", MFlags: []string{}}
			ep.Src = cn.items(abstractText(str(st[0]["before"])))
			for _, s := range st {
				ep.Steps = append(ep.Steps, stepRec{Name: str(s["name"]), After: cn.items(abstractText(str(s["after"])))})
			}
			if noneFinal != nil {
				if nf, ok := noneFinal[rel]; ok {
					ep.None = cn.items(nf)
					ep.HasNone = true
				}
			}
			base := strings.TrimSuffix(rel, ".apparmor.d")
			// files the full-policy prepare step edits have no source text to be compared with in a full build
			fspEdited := c.Full && (rel == "abstractions/gstreamer" || rel == "tunables/multiarch.d/profiles")
			if sp, ok := srcIdx[base]; ok && !fspEdited {
				if b, err := os.ReadFile(sp); err == nil {
					ep.Orig = cn.items(abstractText(string(b)))
					// the orig text is pre-userspace: its header 'rest' differs legitimately; only flags are compared
					ep.HasOrig = true
				}
			}
			if fl, ok := manifest[base]; ok {
				if len(fl) > 0 {
					ep.Manif = "flags"
					ep.MFlags = append([]string{}, fl...)
					sort.Strings(ep.MFlags)
				} else {
					ep.Manif = "listed"
				}
			}
			kb, _ := json.Marshal([]any{c.Mode, c.Full, c.ABI, chain, ep.Src, ep.Steps, ep.None, ep.HasNone, ep.Orig, ep.HasOrig, ep.Manif, ep.MFlags})
			k := sha(kb)
			if old, ok := eps[k]; ok {
				old.Files = append(old.Files, c.Key()+":"+rel)
				continue
			}
			ep.Files = []string{c.Key() + ":" + rel}
			eps[k] = ep
			order = append(order, k)
		}
	}
	res := []*episode{}
	for _, k := range order {
		res = append(res, eps[k])
	}
	return res, nil
}

func nilItems(x []AItem) []AItem {
	if x == nil {
		return []AItem{}
	}
	return x
}

// validate writes the trace, runs BuildersTrace and maps VIOL/DRIFT lines back.
func (f *famBuilders) validate(eps []*episode, props map[string]bool, judgeGen map[string]bool, extra ...any) error {
	recs := []any{}
	for i, ep := range eps {
		recs = append(recs, map[string]any{"ev": "file", "id": fmt.Sprint(i), "cfg": ep.Cfg, "chain": ep.Chain,
			"src": nilItems(ep.Src), "none": nilItems(ep.None), "hasnone": ep.HasNone, "orig": nilItems(ep.Orig), "hasorig": ep.HasOrig,
			"manifest": ep.Manif, "mflags": ep.MFlags})
		prevItems := ep.Src
		for _, s := range ep.Steps {
			pb, _ := json.Marshal(prevItems)
			ab, _ := json.Marshal(s.After)
			if string(pb) == string(ab) {
				recs = append(recs, map[string]any{"ev": "builder", "name": s.Name, "same": true, "after": []AItem{}})
			} else {
				recs = append(recs, map[string]any{"ev": "builder", "name": s.Name, "same": false, "after": nilItems(s.After)})
			}
			prevItems = s.After
		}
		recs = append(recs, map[string]any{"ev": "done"})
	}
	f.lastRecs = recs
	recs = append(recs, extra...)
	tp := filepath.Join(f.e.Scratch, fmt.Sprintf("builders-%d.ndjson", time.Now().UnixNano()))
	if err := writeNDJSON(tp, recs); err != nil {
		return err
	}
	res, err := f.e.RunTLC(TLCOpts{Module: "BuildersTrace", Workers: 1, Timeout: 20 * time.Minute,
		Env: map[string]string{"VERIF_EXT": f.extPath, "VERIF_HDR_PER_LINE": f.perLine, "VERIF_TRACE": tp}})
	if err != nil {
		return err
	}
	f.r.AddTLC(res)
	if !res.Healthy() {
		return fmt.Errorf("BuildersTrace did not accept/complete: err=%q post=%v %s", res.Err, res.PostFailed, tail(res.Out, 2000))
	}
	f.r.Traces += len(eps) + len(extra)
	f.r.Coverage["trace_events"] = len(recs)
	type rep struct {
		P    string          `json:"p"`
		ID   string          `json:"id"`
		What string          `json:"what"`
		D    json.RawMessage `json:"d"`
	}
	driftSeen := map[string]bool{}
	for _, p := range res.PrintsWithPrefix("DRIFT") {
		var x rep
		_ = json.Unmarshal([]byte(p), &x)
		var n int
		fmt.Sscan(x.ID, &n)
		msg := fmt.Sprintf("%s: %s (e.g. %s)", x.P, x.What, eps[n].Files[0])
		k := x.P + x.What
		if !driftSeen[k] && len(f.r.Drift) < 20 {
			driftSeen[k] = true
			f.r.Drift = append(f.r.Drift, msg)
			if os.Getenv("VERIF_DEBUG") != "" {
				fmt.Fprintln(os.Stderr, "DRIFT-DETAIL", msg, tail(string(x.D), 1500))
			}
		}
	}
	for _, p := range res.PrintsWithPrefix("VIOL") {
		var x rep
		if err := json.Unmarshal([]byte(p), &x); err != nil {
			return fmt.Errorf("bad VIOL line %q", p)
		}
		if !props[x.P] {
			continue
		}
		if strings.HasPrefix(x.ID, "F:") {
			parts := strings.SplitN(x.ID, ":", 3)
			detail := strings.ReplaceAll(string(x.D), "\"", "")
			f.r.Violate(fmt.Sprintf("%s|final|%s|%s", x.P, fileKey(f, parts[2]), detail), fmt.Sprintf("%s [%s] %s", parts[2], parts[1], x.What),
				map[string]any{"cfg": parts[1], "file": parts[2], "detail": x.D, "generated_text": f.genText(parts[2])})
			continue
		}
		var n int
		fmt.Sscan(x.ID, &n)
		ep := eps[n]
		for _, fl := range ep.Files {
			parts := strings.SplitN(fl, ":", 2)
			file := parts[1]
			isGen := strings.Contains(file, "vgen-")
			if isGen && !judgeGen[x.P] {
				continue
			}
			var key string
			detail := strings.ReplaceAll(string(x.D), "\"", "")
			switch x.P {
			case "C05":
				key = fmt.Sprintf("C05|%s|%s|%s", fileKey(f, file), ep.Cfg.Mode, detail)
			case "C17":
				key = fmt.Sprintf("C17|%s|%s", fileKey(f, file), detail)
			case "C01":
				key = fmt.Sprintf("C01|%s|%s|abi%d|%s", fileKey(f, file), ep.Cfg.Mode, ep.Cfg.ABI, detail)
			default:
				key = fmt.Sprintf("%s|%s|%s", x.P, fileKey(f, file), detail)
			}
			f.r.Violate(key, fmt.Sprintf("%s [%s] %s", file, parts[0], x.What),
				map[string]any{"cfg": ep.Cfg, "file": file, "episode": ep, "detail": x.D, "generated_text": f.genText(file)})
		}
	}
	return nil
}

func (f *famBuilders) genText(file string) string {
	for _, g := range f.gen {
		if g.Name == file {
			return g.Text
		}
	}
	return ""
}

// fileKey: real files by name; generated files by their abstract shape (stable across runs).
func fileKey(f *famBuilders, file string) string {
	for _, g := range f.gen {
		if g.Name == file {
			b, _ := json.Marshal(g.Abs)
			return "gen:" + compactAbs(string(b))
		}
	}
	return file
}

func compactAbs(s string) string {
	var abs []map[string]any
	_ = json.Unmarshal([]byte(s), &abs)
	parts := []string{}
	for _, it := range abs {
		switch str(it["t"]) {
		case "hdr":
			p := "H"
			if it["sub"] == true {
				p = "h"
			}
			parts = append(parts, p+"("+strings.Join(toStrs(it["flags"]), "+")+")")
		case "decoy":
			parts = append(parts, "D")
		case "exec":
			t := ""
			if it["tgt"] == true {
				t = ">"
			}
			parts = append(parts, "x:"+str(it["perm"])+t)
		case "a4":
			b := "q"
			if it["bare"] == true {
				b = "b"
			}
			parts = append(parts, "a4:"+str(it["k"])+b)
		case "abi":
			parts = append(parts, "abi")
		}
	}
	return strings.Join(parts, ",")
}

// quickCfgs: the defaults per distribution plus a rotating cover of the matrix.
func quickCfgs(seed int64) []Cfg {
	res := []Cfg{}
	for _, d := range Dists {
		res = append(res, DefaultCfg(d))
	}
	all := AllCfgs()
	// rotating pairwise-ish cover: pick 7 more spread over the matrix
	n := len(all)
	for i := 0; i < 7; i++ {
		res = append(res, all[(int(seed)*37+i*53+11)%n])
	}
	// always include one enforce, one full, one abi3 and one none
	res = append(res, Cfg{"arch", 4, "4.1", "enforce", false}, Cfg{"debian", 3, "3.0", "none", true}, Cfg{"ubuntu", 4, "4.0", "enforce", true})
	seen := map[string]bool{}
	out := []Cfg{}
	for _, c := range res {
		if !seen[c.Key()] {
			seen[c.Key()] = true
			out = append(out, c)
		}
	}
	return out
}
