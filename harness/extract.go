package main

// Extraction of model constants from the REAL code (DESIGN §2.1): the builder
// chain each configuration registers (hook event "chain" of the real binary),
// and the effect of the regex-list builders on every permission token (the real
// builder applied to one-rule probes). The TLA+ model reads them from Ext.json.

import (
	"encoding/json"
	"fmt"
	"os"
	"path/filepath"
	"sort"
	"strings"

	"github.com/roddhjav/apparmor.d/pkg/paths"
	"github.com/roddhjav/apparmor.d/pkg/prebuild/builder"
)

var execModesList = []string{"ix", "ux", "Ux", "px", "Px", "cx", "Cx", "pix", "Pix", "cix", "Cix", "pux", "PUx", "cux", "CUx", "x"}

func isExecMode(m string) bool {
	for _, x := range execModesList {
		if x == m {
			return true
		}
	}
	return false
}

// permInfo: lexical split plus validity (what apparmor.d(5) accepts).
func splitPerm(p string) (acc, mode string, valid bool) {
	acc, mode = SplitPerm(p)
	valid = p != "" && (mode == "" || isExecMode(mode))
	for _, c := range acc {
		if !strings.ContainsRune("rwamlkd", c) {
			valid = false
		}
	}
	return
}

// MiniSrc writes a minimal source tree on which the real prebuild runs in a few ms.
func (e *Env) MiniSrc(name string, profiles map[string]string) (string, error) {
	root := filepath.Join(e.Scratch, name)
	w := func(rel, content string) error {
		p := filepath.Join(root, rel)
		if err := os.MkdirAll(filepath.Dir(p), 0o755); err != nil {
			return err
		}
		return os.WriteFile(p, []byte(content), 0o644)
	}
	files := map[string]string{
		"apparmor.d/tunables/multiarch.d/profiles":       "@{p_systemd}=unconfined\n@{p_systemd_user}=unconfined\n",
		"apparmor.d/abstractions/gstreamer":              "  abi <abi/4.0>,\n\n  @{bin}/gst-plugin-scanner ix,\n  /usr/share/gstreamer r,\n",
		"apparmor.d/groups/_full/vfull":                  "abi <abi/4.0>,\n\ninclude <tunables/global>\n\n@{exec_path} = @{bin}/vfull\nprofile vfull @{exec_path} {\n  include <abstractions/base>\n\n  @{exec_path} mr,\n\n  include if exists <local/vfull>\n}\n",
		"dists/flags/main.flags":                         "# flags\n",
		"dists/ignore/main.ignore":                       "# ignore\napparmor.d/groups/_full\n",
		"dists/overwrite":                                "# overwrite\n",
		"dists/ubuntu/abstractions/vubuntu":              "  abi <abi/4.0>,\n",
		"systemd/default/vunit.service.d/apparmor.conf":  "[Service]\nAppArmorProfile=vfull\n",
		"systemd/early/vearly.service.d/apparmor.conf":   "[Unit]\nAfter=apparmor.service\n",
		"systemd/full/vfullunit.service.d/apparmor.conf": "[Service]\nAppArmorProfile=vfull\n",
		"share/README":                                   "share\n",
	}
	for k, v := range files {
		if err := w(k, v); err != nil {
			return "", err
		}
	}
	for k, v := range profiles {
		if err := w(k, v); err != nil {
			return "", err
		}
	}
	return root, nil
}

type ExtTables struct {
	Chains   map[string]map[string][]string `json:"chains"`
	Tok      map[string]map[string]string   `json:"tok"`
	PermInfo map[string]map[string]any      `json:"perminfo"`
	KeyInfo  map[string]map[string]any      `json:"keyinfo"`
}

func chainKey(c Cfg) string {
	f := "normal"
	if c.Full {
		f = "full"
	}
	return fmt.Sprintf("%s|%s|%d", c.Mode, f, c.ABI)
}

// Extract builds Ext.json.
func (e *Env) Extract(extraTokens map[string]bool) (string, *ExtTables, error) {
	ext := &ExtTables{Chains: map[string]map[string][]string{}, Tok: map[string]map[string]string{}, PermInfo: map[string]map[string]any{}, KeyInfo: map[string]map[string]any{}}
	mini, err := e.MiniSrc("mini-chain", nil)
	if err != nil {
		return "", nil, err
	}
	for _, m := range Modes {
		for _, full := range []bool{false, true} {
			for _, abi := range []int{3, 4} {
				c := Cfg{"arch", abi, "4.1", m, full}
				b := e.RunPrebuild(c, BuildOpts{Src: mini, Tag: "chain"})
				if b.Err != nil {
					return "", nil, fmt.Errorf("chain extraction: %v", b.Err)
				}
				evs, err := readEvents(b.Trace)
				if err != nil {
					return "", nil, err
				}
				found := false
				for _, ev := range evs {
					if ev["ev"] == "chain" {
						ext.Chains[chainKey(c)] = map[string][]string{"prepares": toStrs(ev["prepares"]), "builds": toStrs(ev["builds"])}
						found = true
					}
				}
				if !found {
					return "", nil, fmt.Errorf("no chain event for %s (hooks missing?)", c.Key())
				}
				b.Drop()
			}
		}
	}
	// token tables by probing the real builders
	accs := []string{"", "r", "m", "mr", "rw"}
	tokens := map[string]bool{}
	for _, a := range accs {
		for _, m := range execModesList {
			tokens[a+m] = true
		}
	}
	for t := range extraTokens {
		tokens[t] = true
	}
	for _, bn := range []string{"hotfix", "fsp"} {
		ext.Tok[bn] = map[string]string{}
	}
	opt := &builder.Option{Name: "probe", File: paths.New("/nonexistent/apparmor.d/probe")}
	for round := 0; round < 4; round++ {
		added := false
		keys := []string{}
		for t := range tokens {
			keys = append(keys, t)
		}
		sort.Strings(keys)
		for _, t := range keys {
			for _, tg := range []bool{false, true} {
				k := t + "|-"
				line := "  /x " + t + ",\n"
				if tg {
					k = t + "|t"
					line = "  /x " + t + " -> tgt,\n"
				}
				ext.KeyInfo[k] = map[string]any{"perm": t, "tgt": tg}
				for _, bn := range []string{"hotfix", "fsp"} {
					b, ok := builder.Builders[bn]
					if !ok {
						return "", nil, fmt.Errorf("builder %s not registered", bn)
					}
					out, err := b.Apply(opt, line)
					if err != nil {
						return "", nil, err
					}
					f := strings.Fields(strings.TrimSuffix(strings.TrimSpace(out), ","))
					res := ""
					if len(f) >= 2 {
						res = strings.TrimSuffix(f[1], ",")
					}
					ext.Tok[bn][k] = res
					if !tokens[res] {
						tokens[res] = true
						added = true
					}
				}
			}
		}
		if !added {
			break
		}
	}
	for t := range tokens {
		a, m, v := splitPerm(t)
		ext.PermInfo[t] = map[string]any{"acc": a, "mode": m, "valid": v}
	}
	p := filepath.Join(e.Scratch, "Ext.json")
	b, _ := json.Marshal(ext)
	if err := os.WriteFile(p, b, 0o644); err != nil {
		return "", nil, err
	}
	// TLC re-evaluates JsonDeserialize on every access of a constant definition
	// (measured: 82 s vs 3 s), so the tables are handed over as a TLA+ literal module.
	var generic any
	_ = json.Unmarshal(b, &generic)
	if err := e.WriteDataModule("ExtData", "ExtTables", generic); err != nil {
		return "", nil, err
	}
	return p, ext, nil
}

// tlaLit renders JSON-like data as a TLA+ expression (objects become functions
// over strings, which is what TLA+ records are).
func tlaLit(v any) string {
	switch x := v.(type) {
	case nil:
		return "\"\""
	case bool:
		if x {
			return "TRUE"
		}
		return "FALSE"
	case float64:
		return fmt.Sprint(int64(x))
	case int:
		return fmt.Sprint(x)
	case string:
		q, _ := json.Marshal(x)
		return string(q)
	case []string:
		parts := make([]string, len(x))
		for i, e := range x {
			parts[i] = tlaLit(e)
		}
		return "<<" + strings.Join(parts, ", ") + ">>"
	case []any:
		parts := make([]string, len(x))
		for i, e := range x {
			parts[i] = tlaLit(e)
		}
		return "<<" + strings.Join(parts, ", ") + ">>"
	case map[string]any:
		if len(x) == 0 {
			return "<<>>"
		}
		ks := make([]string, 0, len(x))
		for k := range x {
			ks = append(ks, k)
		}
		sort.Strings(ks)
		parts := make([]string, len(ks))
		for i, k := range ks {
			q, _ := json.Marshal(k)
			parts[i] = string(q) + " :> " + tlaLit(x[k])
		}
		return "(" + strings.Join(parts, " @@\n  ") + ")"
	}
	return "\"?\""
}

// WriteDataModule writes <module>.tla defining <name> == <literal> into the scratch spec dir.
func (e *Env) WriteDataModule(module, name string, data any) error {
	dir, err := e.specWork()
	if err != nil {
		return err
	}
	src := "---- MODULE " + module + " ----\nEXTENDS TLC\n" + name + " == " + tlaLit(data) + "\n====\n"
	return os.WriteFile(filepath.Join(dir, module+".tla"), []byte(src), 0o644)
}

func toStrs(v any) []string {
	res := []string{}
	if a, ok := v.([]any); ok {
		for _, x := range a {
			res = append(res, fmt.Sprint(x))
		}
	}
	return res
}
