package main

// C01: every file prebuild places in the output policy directory is accepted by the
// reference AppArmor parser, in every configuration. The oracle is apparmor_parser
// 3.0.8 run over an overlay (upstream policy dir + build output); its verdicts are
// events of a trace TLC validates (invariant: ok). The Builders model's syntactic
// Loadable predicate gives the design-level counterpart (model phase).

import (
	"fmt"
	"os"
	"os/exec"
	"path/filepath"
	"regexp"
	"sort"
	"strings"
	"sync"
)

func init() { checks["C01"] = checkC01 }

var (
	reAbiLine = regexp.MustCompile(`(?m)^(\s*)abi\s+<abi/4\.0>,`)
	reA4Rule  = regexp.MustCompile(`(?m)^(\s*)((?:(?:audit|deny|allow)\s+)*(?:userns|mqueue|io_uring|all)\b[^\n]*,\s*(?:#.*)?)$`)
)

// normaliseABI4 sets aside what C01 allows for ABI 4 targets: the abi declaration is
// read as 3.0 (the reference parser has no abi/4.0 feature file) and the four
// AppArmor-4-only rule kinds are commented out.
func normaliseABI4(text string) string {
	text = reAbiLine.ReplaceAllString(text, "${1}abi <abi/3.0>,")
	return reA4Rule.ReplaceAllString(text, "${1}# set aside: ${2}")
}

type parseRes struct {
	OK   bool
	Diag string
}

func runParser(overlay, file string, full bool) parseRes {
	args := []string{"-Q", "-K", "-b", overlay, "-I", overlay}
	if full {
		args = append(args, "-S", "--kernel-features", "/etc/apparmor.d/abi/3.0")
	} else {
		args = append(args, "-d")
	}
	args = append(args, file)
	cmd := exec.Command("/usr/sbin/apparmor_parser", args...)
	cmd.Dir = overlay
	var errb strings.Builder
	cmd.Stderr = &errb
	err := cmd.Run() // stdout (debug dump / compiled policy) is discarded
	out := errb.String()
	if err == nil {
		return parseRes{OK: true}
	}
	diag := ""
	for _, pat := range []string{"AppArmor parser error", "conflicting", "ERROR", "rror"} {
		for _, l := range strings.Split(string(out), "\n") {
			if strings.Contains(l, pat) {
				diag = strings.TrimSpace(l)
				break
			}
		}
		if diag != "" {
			break
		}
	}
	if diag == "" {
		diag = strings.TrimSpace(tail(string(out), 200))
	}
	// make the diagnostic independent of the scratch path
	diag = strings.ReplaceAll(diag, overlay, "<overlay>")
	return parseRes{OK: false, Diag: diag}
}

// makeOverlay: upstream policy directory + (for 4.1) stand-ins + normalised build output.
func makeOverlay(e *Env, b *Build) (string, error) {
	ov := filepath.Join(b.Dir, "overlay")
	if out, err := execCmd("cp", "-a", "/etc/apparmor.d", ov); err != nil {
		return "", fmt.Errorf("overlay: %v %s", err, out)
	}
	// drop upstream profiles (top-level files): only includes are needed from upstream
	ents, _ := os.ReadDir(ov)
	for _, en := range ents {
		if !en.IsDir() {
			_ = os.Remove(filepath.Join(ov, en.Name()))
		}
	}
	if b.Cfg.Ver == "4.1" {
		// files "upstreamed in 4.1" are removed from the build; upstream 3.0.8 lacks them: stand-ins
		for _, n := range []string{"abstractions/devices-usb-read", "abstractions/devices-usb", "abstractions/nameservice-strict", "tunables/multiarch.d/base"} {
			src := filepath.Join(e.Src, "apparmor.d", n)
			if t, err := os.ReadFile(src); err == nil {
				dst := filepath.Join(ov, n)
				_ = os.MkdirAll(filepath.Dir(dst), 0o755)
				_ = os.WriteFile(dst, []byte(normaliseABI4(string(t))), 0o644)
			}
		}
	}
	root := filepath.Join(b.Out, "apparmor.d")
	for _, fn := range listFiles(root) {
		p := filepath.Join(root, fn)
		fi, err := os.Lstat(p)
		if err != nil || !fi.Mode().IsRegular() {
			continue
		}
		t, err := os.ReadFile(p)
		if err != nil {
			return "", err
		}
		text := string(t)
		if b.Cfg.ABI == 4 {
			text = normaliseABI4(text)
		}
		// the prompt qualifier (AppArmor 4 prompting; one abstraction, which no profile includes, uses it) is read
		// as the plain rule, like the AppArmor-4-only kinds it is not something the 3.0.8 reference knows
		text = rePromptQual.ReplaceAllString(text, "${1}")
		dst := filepath.Join(ov, fn)
		_ = os.MkdirAll(filepath.Dir(dst), 0o755)
		if err := os.WriteFile(dst, []byte(text), 0o644); err != nil {
			return "", err
		}
	}
	return ov, nil
}

func isProfilePath(fn string) bool {
	top := strings.Split(fn, "/")[0]
	switch top {
	case "abstractions", "tunables", "local", "mappings", "disable", "abi":
		return false
	}
	return !strings.Contains(fn, "/")
}

func checkC01(e *Env, r *Report) {
	r.Level = "translation_validation"
	if _, err := os.Stat("/usr/sbin/apparmor_parser"); err != nil {
		r.Fatal = "apparmor_parser not installed"
		return
	}
	// model phase + generated files: the Builders universe is built and parsed too
	f := famSetup(e, r)
	if f == nil {
		return
	}
	var cfgs []Cfg
	if e.Tier == "thorough" {
		cfgs = AllCfgs()
	} else {
		cfgs = quickCfgs(e.Seed)
	}
	// quick tier: pick the two configurations that get a full compile of everything
	f.fullCompileCfg = map[string]bool{}
	pickedFull, pickedNormal := false, false
	for i := range cfgs {
		c := cfgs[(i+int(e.Seed))%len(cfgs)]
		if c.Full && !pickedFull {
			f.fullCompileCfg[c.Key()] = true
			pickedFull = true
		}
		if !c.Full && !pickedNormal {
			f.fullCompileCfg[c.Key()] = true
			pickedNormal = true
		}
	}
	if e.Tier == "thorough" {
		// every configuration gets the -d pass on every file; the full compile of every file (measured:
		// ~40 s of 16 cores per configuration) goes to one configuration per (distribution, ABI,
		// full) triple - version and mode rotate with the triple and the seed - 20 of the 180
		f.fullCompileCfg = map[string]bool{}
		k := int(e.Seed)
		for _, d := range Dists {
			for _, abi := range []int{3, 4} {
				for _, full := range []bool{false, true} {
					f.fullCompileCfg[Cfg{d, abi, Vers[k%len(Vers)], Modes[(k/len(Vers))%len(Modes)], full}.Key()] = true
					k++
				}
			}
		}
	}
	f.hosts = map[string]bool{}
	for _, pf := range profileFiles(f.aug) {
		t, _ := os.ReadFile(filepath.Join(f.aug, "apparmor.d", pf))
		for _, it := range Scan(string(t)) {
			if it.T == "dir" && (it.DKind == "stack" || it.DKind == "exec") {
				f.hosts[strings.TrimSuffix(filepath.Base(pf), ".apparmor.d")] = true
			}
		}
	}
	type job struct {
		ci      int
		overlay string
		file    string
	}
	var mu sync.Mutex
	cache := map[string]parseRes{}
	recs := []any{}
	nParsed, nCached, nCompiled, nProbed := 0, 0, 0, 0
	// builds are processed in batches to bound disk use
	batch := 8
	for s := 0; s < len(cfgs); s += batch {
		end := min(s+batch, len(cfgs))
		builds := make([]*Build, end-s)
		ovs := make([]string, end-s)
		var berr error
		parallel(end-s, 8, func(i int) {
			b := e.RunPrebuild(cfgs[s+i], BuildOpts{Src: f.aug, Tag: "aug", NoCache: true})
			builds[i] = b
			if b.Err != nil {
				berr = b.Err
				return
			}
			ov, err := makeOverlay(e, b)
			if err != nil {
				berr = err
			}
			ovs[i] = ov
		})
		if berr != nil {
			r.Fatal = berr.Error()
			return
		}
		jobs := []job{}
		envHash := make([]string, end-s)
		for i := range builds {
			// hash of everything profiles can include (abstractions, tunables, mappings, local)
			var hb strings.Builder
			for _, fn := range listFiles(ovs[i]) {
				if !isProfilePath(fn) {
					t, _ := os.ReadFile(filepath.Join(ovs[i], fn))
					hb.WriteString(fn + ":" + shaS(string(t)) + "\n")
				}
			}
			envHash[i] = shaS(hb.String())
			for _, fn := range listFiles(ovs[i]) {
				if isProfilePath(fn) && judgedForC01(f, fn) {
					jobs = append(jobs, job{i, ovs[i], fn})
				}
			}
		}
		results := make([]parseRes, len(jobs))
		parallel(len(jobs), 16, func(k int) {
			j := jobs[k]
			t, _ := os.ReadFile(filepath.Join(j.overlay, j.file))
			key := envHash[j.ci] + "|" + j.file + "|" + shaS(string(t))
			mu.Lock()
			if pr, ok := cache[key]; ok {
				mu.Unlock()
				results[k] = pr
				mu.Lock()
				nCached++
				mu.Unlock()
				return
			}
			mu.Unlock()
			pr := runParser(j.overlay, j.file, false)
			nRuns := 1
			if pr.OK && compileFully(e, f, cfgs[s+j.ci], j.file, s+j.ci) {
				// the compile pass is cached on the text with the complain flag masked, so the
				// three build modes of one configuration share it (the -d pass above saw the real text)
				ckey := "C|" + envHash[j.ci] + "|" + j.file + "|" + shaS(reComplainFlag.ReplaceAllString(string(t), ""))
				mu.Lock()
				cpr, ok := cache[ckey]
				mu.Unlock()
				if !ok {
					cpr = runParser(j.overlay, j.file, true)
					nRuns++
					mu.Lock()
					cache[ckey] = cpr
					nCompiled++
					mu.Unlock()
				}
				pr = cpr
			}
			mu.Lock()
			cache[key] = pr
			nParsed += nRuns
			mu.Unlock()
			results[k] = pr
		})
		for k, j := range jobs {
			c := cfgs[s+j.ci]
			recs = append(recs, map[string]any{"ev": "parse", "key": fmt.Sprintf("%s|%s|abi%d|%s", fileKey(f, j.file), c.Mode, c.ABI, diagClass(results[k].Diag)),
				"cfgkey": c.Key(), "file": j.file, "ok": results[k].OK, "diag": results[k].Diag})
		}
		// the built files that are not profiles but are there to be included (abstractions, mappings): each one
		// through a probe profile that includes it - a file no shipped profile includes is never read otherwise
		incJobs := []job{}
		for i, b := range builds {
			for _, fn := range listFiles(filepath.Join(b.Out, "apparmor.d")) {
				if (strings.HasPrefix(fn, "abstractions/") || strings.HasPrefix(fn, "mappings/")) && !strings.Contains(fn, ".d/") {
					incJobs = append(incJobs, job{i, ovs[i], fn})
				}
			}
		}
		incRes := make([]parseRes, len(incJobs))
		parallel(len(incJobs), 16, func(k int) {
			j := incJobs[k]
			t, _ := os.ReadFile(filepath.Join(j.overlay, j.file))
			key := "I|" + envHash[j.ci] + "|" + j.file + "|" + shaS(string(t))
			mu.Lock()
			pr, ok := cache[key]
			mu.Unlock()
			if ok {
				incRes[k] = pr
				return
			}
			pr = probeInclude(j.overlay, j.file)
			mu.Lock()
			cache[key] = pr
			nParsed++
			nProbed++
			mu.Unlock()
			incRes[k] = pr
		})
		for k, j := range incJobs {
			c := cfgs[s+j.ci]
			recs = append(recs, map[string]any{"ev": "parse", "key": fmt.Sprintf("%s|%s|abi%d|%s", j.file, c.Mode, c.ABI, diagClass(incRes[k].Diag)),
				"cfgkey": c.Key(), "file": j.file, "ok": incRes[k].OK, "diag": incRes[k].Diag})
		}
		for _, b := range builds {
			b.Drop()
		}
	}
	r.Coverage["programs"] = len(recs)
	r.Coverage["parser_runs"] = nParsed
	r.Coverage["full_compiles"] = nCompiled
	r.Coverage["include_files_probed"] = nProbed
	r.Coverage["parser_results_reused"] = nCached
	r.Coverage["disagreements_checked"] = len(recs)
	r.Coverage["configs"] = len(cfgs)
	if len(recs) > 0 {
		r.Sample(recs[0])
	}
	r.Assume = append(r.Assume, "apparmor_parser 3.0.8 stands in for the target parser: abi <abi/4.0> is read as 3.0 and userns/mqueue/io_uring/all rules are set aside, as C01 allows",
		"include files (abstractions, mappings) are also loaded on their own, through a probe profile that includes one file and defines the variables it asks for; the prompt qualifier of abstractions/user-data is read as the plain rule",
		"version 4.1 builds are overlaid with the repository's own copies of the four include files 'upstreamed in 4.1'",
		"every file of every configuration: syntax/semantic check with -Q -K -d; full compile with --kernel-features abi/3.0 for generated files and directive hosts everywhere, and for every file in 2 (quick) / 20 (thorough: one per distribution x ABI x full) configurations")
	// keep the trace small: only failures and a sample of successes go to TLC individually,
	// successes are summarised per configuration
	sort.SliceStable(recs, func(i, j int) bool { return false })
	runTreeTraceParse(e, r, recs)
}

var reComplainFlag = regexp.MustCompile(`,?complain,?`)

// compileFully decides which files also get the full compile (rule merging, x-modifier
// conflicts only show there). thorough: everything. quick: every file of two rotating
// configurations (one of them --full), and in all configurations the files the directive
// stage pastes rules into (stack / exec hosts) plus the generated files.
func compileFully(e *Env, f *famBuilders, c Cfg, file string, idx int) bool {
	if strings.Contains(file, "vgen-") || f.hosts[strings.TrimSuffix(file, ".apparmor.d")] {
		return true
	}
	return f.fullCompileCfg[c.Key()]
}

var reDiagNoise = regexp.MustCompile(`line \d+|in [^ ]* at|\([^)]*\)`)

func diagClass(d string) string {
	if d == "" {
		return "ok"
	}
	d = reDiagNoise.ReplaceAllString(d, "")
	if i := strings.Index(d, "rror"); i >= 0 {
		d = d[i:]
	}
	if len(d) > 80 {
		d = d[:80]
	}
	return strings.TrimSpace(d)
}

func runTreeTraceParse(e *Env, r *Report, recs []any) {
	runTreeTrace(e, r, recs, "C01")
}

// judgedForC01: shipped files always; generated files only when their source is inside the
// input contract (valid permission tokens; AppArmor-4 rules only in the two forms the abi3
// builder is written for). Others are explored by the model (leads) but the code is not
// convicted on them (DESIGN 2.3.3).
func judgedForC01(f *famBuilders, fn string) bool {
	if !strings.Contains(fn, "vgen-") {
		return true
	}
	for _, g := range f.gen {
		if g.Name != fn {
			continue
		}
		for _, it := range g.Abs {
			switch str(it["t"]) {
			case "exec":
				_, m, v := splitPerm(str(it["perm"]))
				if !v || m == "x" || m == "" {
					return false
				}
			case "a4":
				k := str(it["k"])
				if it["bare"] != true || (k != "userns" && k != "mqueue") {
					return false
				}
			}
		}
		return true
	}
	return true
}

var rePromptQual = regexp.MustCompile(`(?m)^([\t ]*)prompt[\t ]+`)
var reNeverDeclared = regexp.MustCompile(`reference to variable (\w+), but is never declared`)

// probeInclude loads an include file through a probe profile; variables the file expects from the profile
// that includes it (@{name}, @{lib_dirs} ...) are supplied as the parser asks for them.
func probeInclude(overlay, file string) parseRes {
	vars := []string{}
	have := map[string]bool{}
	name := "vprobe-" + shaS(file)
	defer os.Remove(filepath.Join(overlay, name))
	var pr parseRes
	for try := 0; try < 16; try++ {
		stub := "abi <abi/3.0>,\ninclude <tunables/global>\n" + strings.Join(vars, "") + "profile vprobe /vprobe {\n  include <" + file + ">\n}\n"
		if err := os.WriteFile(filepath.Join(overlay, name), []byte(stub), 0o644); err != nil {
			return parseRes{OK: false, Diag: err.Error()}
		}
		pr = runParser(overlay, name, false)
		if pr.OK {
			return pr
		}
		m := reNeverDeclared.FindStringSubmatch(pr.Diag)
		if m == nil || have[m[1]] {
			return pr
		}
		have[m[1]] = true
		vars = append(vars, "@{"+m[1]+"} = /vprobe\n")
	}
	return pr
}
