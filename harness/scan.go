package main

// Independent scanner for AppArmor policy text. It does NOT use the parser of
// /repo's pkg/aa: it is the oracle side. It splits a file into logical lines
// (rules may span several physical lines, up to the terminating comma) and
// classifies each into an Item with exactly the fields the properties talk about.

import (
	"regexp"
	"sort"
	"strings"
)

type Item struct {
	T     string `json:"t"`     // hdr close rule exec a4 abi inc var dir blank cmt other
	Line  int    `json:"line"`  // 1-based physical line of the first line
	Depth int    `json:"depth"` // brace depth before the item
	Raw   string `json:"-"`
	H     string `json:"h"` // hash of the raw logical line

	// hdr
	Kw     string   `json:"kw,omitempty"`
	Name   string   `json:"name,omitempty"`
	Att    []string `json:"att,omitempty"`
	Xattrs string   `json:"xattrs,omitempty"`
	Flags  []string `json:"flags,omitempty"`
	NFlags int      `json:"nflags"`
	Shape  string   `json:"shape,omitempty"` // ok | nospace | other

	// rule / exec
	Quals  []string `json:"quals,omitempty"`
	Owner  bool     `json:"owner,omitempty"`
	Path   string   `json:"path,omitempty"`
	Perms  string   `json:"perms,omitempty"` // the whole permission token
	Mode   string   `json:"mode,omitempty"`  // exec transition part (e.g. Px, pux, ix)
	R      string   `json:"acc,omitempty"`   // non-exec letters (sorted as written)
	Target string   `json:"tgt,omitempty"`
	Kind   string   `json:"kind,omitempty"` // rule keyword for non-file rules (dbus, unix, userns ...)
	Cmted  bool     `json:"cmted,omitempty"`
	Trail  string   `json:"trail,omitempty"`

	// inc
	IncPath  string `json:"inc,omitempty"`
	IfExists bool   `json:"ifexists,omitempty"`
	Magic    bool   `json:"magic,omitempty"`

	// var
	VarName string   `json:"var,omitempty"`
	VarOp   string   `json:"op,omitempty"`
	Values  []string `json:"values,omitempty"`

	// dir
	DKind  string   `json:"dkind,omitempty"`
	Inline bool     `json:"inline,omitempty"`
	Args   []string `json:"args,omitempty"`
	Body   *Item    `json:"body,omitempty"` // the rule an inline directive is attached to

	Decoy bool `json:"decoy,omitempty"` // non-header line that ends in " {"
}

var (
	reFlagsClause = regexp.MustCompile(`flags=\(([^)]*)\)`)
	reXattrs      = regexp.MustCompile(`xattrs=\(([^)]*)\)`)
	reDirective   = regexp.MustCompile(`#aa:([a-z]*)( .*)?$`)
	reVarDef      = regexp.MustCompile(`^(@\{[^}]+\})\s*(\+?=)\s*(.*)$`)
	reExecMode    = regexp.MustCompile(`(pix|Pix|cix|Cix|pux|PUx|cux|CUx|ix|ux|Ux|px|Px|cx|Cx|x)$`)
	rulesKw       = map[string]bool{
		"capability": true, "network": true, "mount": true, "remount": true, "umount": true,
		"pivot_root": true, "change_profile": true, "signal": true, "ptrace": true, "unix": true,
		"dbus": true, "set": true, "rlimit": true, "userns": true, "mqueue": true, "io_uring": true,
		"all": true, "link": true, "file": true, "alias": true, "change_hat": true,
	}
	a4Kinds = map[string]bool{"userns": true, "mqueue": true, "io_uring": true, "all": true}
)

// stripComment splits a physical line into code and trailing comment. A '#'
// starts a comment when it is at the start or preceded by whitespace, outside
// double quotes.
func stripComment(line string) (code, comment string, has bool) {
	inq := false
	for i := 0; i < len(line); i++ {
		c := line[i]
		if c == '"' {
			inq = !inq
		}
		if c == '#' && !inq && (i == 0 || line[i-1] == ' ' || line[i-1] == '\t') {
			return line[:i], line[i:], true
		}
	}
	return line, "", false
}

func fieldsOutsideGroups(s string) []string {
	res := []string{}
	var cur strings.Builder
	depth := 0
	inq := false
	for _, r := range s {
		switch {
		case r == '"':
			inq = !inq
			cur.WriteRune(r)
		case inq:
			cur.WriteRune(r)
		case r == '{' || r == '(' || r == '[':
			depth++
			cur.WriteRune(r)
		case r == '}' || r == ')' || r == ']':
			if depth > 0 {
				depth--
			}
			cur.WriteRune(r)
		case (r == ' ' || r == '\t' || r == '\n') && depth == 0:
			if cur.Len() > 0 {
				res = append(res, cur.String())
				cur.Reset()
			}
		default:
			cur.WriteRune(r)
		}
	}
	if cur.Len() > 0 {
		res = append(res, cur.String())
	}
	return res
}

// Scan splits text into items.
func Scan(text string) []Item {
	lines := strings.Split(text, "\n")
	if len(lines) > 0 && lines[len(lines)-1] == "" {
		lines = lines[:len(lines)-1]
	}
	items := []Item{}
	depth := 0
	for i := 0; i < len(lines); i++ {
		raw := lines[i]
		start := i
		code, cmt, hasCmt := stripComment(raw)
		tcode := strings.TrimSpace(code)
		it := Item{Line: start + 1, Depth: depth}

		if tcode == "" && !hasCmt {
			it.T = "blank"
			it.Raw = raw
			it.H = shaS(raw)
			items = append(items, it)
			continue
		}
		if tcode == "" && hasCmt {
			// full-line comment, possibly a directive or a commented-out rule
			if m := reDirective.FindStringSubmatch(cmt); m != nil {
				it.T = "dir"
				it.DKind = m[1]
				it.Args = strings.Fields(m[2])
				it.Inline = false
			} else {
				it.T = "cmt"
				body := strings.TrimSpace(strings.TrimPrefix(strings.TrimSpace(cmt), "#"))
				f := strings.Fields(body)
				if len(f) > 0 && a4Kinds[strings.TrimSuffix(f[0], ",")] && strings.HasSuffix(body, ",") {
					it.Cmted = true
					it.Kind = strings.TrimSuffix(f[0], ",")
				} else if strings.HasSuffix(body, ",") && len(f) >= 2 {
					// a commented-out file rule with an exec transition
					var c Item
					parseRule(&c, body)
					if c.T == "exec" {
						it.Cmted = true
						it.Kind = "exec"
						it.Perms, it.Mode, it.R, it.Target, it.Path = c.Perms, c.Mode, c.R, c.Target, c.Path
					}
				}
				if strings.HasSuffix(raw, "{") {
					it.Decoy = true
				}
			}
			it.Raw = raw
			it.H = shaS(raw)
			items = append(items, it)
			continue
		}

		// header?
		if strings.HasSuffix(tcode, "{") && isHeaderStart(tcode, depth) {
			it.T = "hdr"
			parseHeader(&it, tcode)
			it.Raw = raw
			it.H = shaS(raw)
			if hasCmt {
				it.Trail = cmt
			}
			items = append(items, it)
			depth++
			continue
		}
		if tcode == "}" {
			depth--
			if depth < 0 {
				depth = 0
			}
			it.T = "close"
			it.Depth = depth
			it.Raw = raw
			it.H = shaS(raw)
			items = append(items, it)
			continue
		}

		// include / abi / variable definitions do not need a continuation
		f := strings.Fields(tcode)
		first := f[0]
		switch {
		case first == "include" || first == "#include":
			it.T = "inc"
			parseInclude(&it, tcode)
		case strings.HasPrefix(tcode, "@{") && reVarDef.MatchString(tcode) && depth == 0:
			m := reVarDef.FindStringSubmatch(tcode)
			it.T = "var"
			it.VarName = m[1]
			it.VarOp = m[2]
			it.Values = fieldsOutsideGroups(m[3])
		default:
			// a comma rule, possibly spanning several lines
			full := tcode
			rawFull := raw
			for !strings.HasSuffix(strings.TrimSpace(full), ",") && i+1 < len(lines) {
				nc, ncm, nhas := stripComment(lines[i+1])
				ntc := strings.TrimSpace(nc)
				if ntc == "" || ntc == "}" || strings.HasSuffix(ntc, "{") {
					break
				}
				i++
				full += " " + ntc
				rawFull += "\n" + lines[i]
				if nhas {
					cmt, hasCmt = ncm, true
				}
			}
			it.Raw = rawFull
			parseRule(&it, strings.TrimSpace(full))
		}
		if it.Raw == "" {
			it.Raw = raw
		}
		it.H = shaS(it.Raw)
		if hasCmt {
			it.Trail = cmt
			if m := reDirective.FindStringSubmatch(cmt); m != nil {
				body := it
				body.Trail = ""
				d := Item{T: "dir", Line: it.Line, Depth: it.Depth, Raw: it.Raw, H: it.H, DKind: m[1], Args: strings.Fields(m[2]), Inline: true, Body: &body}
				it = d
			}
		}
		if it.T != "hdr" && strings.HasSuffix(raw, "{") {
			it.Decoy = true
		}
		items = append(items, it)
	}
	return items
}

func isHeaderStart(tcode string, depth int) bool {
	if strings.HasPrefix(tcode, "profile ") || strings.HasPrefix(tcode, "hat ") || strings.HasPrefix(tcode, "^") || tcode == "profile{" {
		return true
	}
	if strings.HasPrefix(tcode, "profile") { // "profile gdb{"
		return true
	}
	// old style "/path {" header at top level
	if depth == 0 && (strings.HasPrefix(tcode, "/") || strings.HasPrefix(tcode, "@{")) && !strings.Contains(tcode, ",") {
		return true
	}
	return false
}

func parseHeader(it *Item, tcode string) {
	body := strings.TrimSuffix(tcode, "{")
	switch {
	case strings.HasSuffix(body, " ") || strings.HasSuffix(body, "\t"):
		it.Shape = "ok"
	default:
		it.Shape = "nospace"
	}
	body = strings.TrimSpace(body)
	cl := reFlagsClause.FindAllStringSubmatch(body, -1)
	it.NFlags = len(cl)
	fl := []string{}
	for _, c := range cl {
		for _, x := range strings.Split(c[1], ",") {
			x = strings.TrimSpace(x)
			if x != "" {
				fl = append(fl, x)
			}
		}
	}
	sort.Strings(fl)
	it.Flags = fl
	body = reFlagsClause.ReplaceAllString(body, " ")
	if m := reXattrs.FindStringSubmatch(body); m != nil {
		it.Xattrs = strings.Join(strings.Fields(m[1]), " ")
		body = reXattrs.ReplaceAllString(body, " ")
	}
	f := fieldsOutsideGroups(body)
	if len(f) == 0 {
		return
	}
	switch {
	case f[0] == "profile" || f[0] == "hat":
		it.Kw = f[0]
		f = f[1:]
	case strings.HasPrefix(f[0], "^"):
		it.Kw = "^"
		f[0] = strings.TrimPrefix(f[0], "^")
	case strings.HasPrefix(f[0], "profile"): // glued, e.g. never in valid policy
		it.Kw = "profile"
		f[0] = strings.TrimPrefix(f[0], "profile")
	default:
		it.Kw = ""
	}
	if len(f) > 0 {
		it.Name = f[0]
		it.Att = append([]string{}, f[1:]...)
	}
	if it.Att == nil {
		it.Att = []string{}
	}
}

func parseInclude(it *Item, tcode string) {
	s := strings.TrimPrefix(strings.TrimPrefix(tcode, "#"), "include")
	s = strings.TrimSpace(s)
	if strings.HasPrefix(s, "if exists") {
		it.IfExists = true
		s = strings.TrimSpace(strings.TrimPrefix(s, "if exists"))
	}
	s = strings.TrimSuffix(s, ",")
	if strings.HasPrefix(s, "<") {
		it.Magic = true
	}
	it.IncPath = strings.Trim(s, "<>\"")
}

func parseRule(it *Item, full string) {
	it.T = "rule"
	body := strings.TrimSuffix(strings.TrimSpace(full), ",")
	f := fieldsOutsideGroups(body)
	for len(f) > 0 {
		switch f[0] {
		case "audit", "deny", "allow", "quiet", "priority", "prompt":
			it.Quals = append(it.Quals, f[0])
			f = f[1:]
			continue
		case "owner", "other":
			it.Owner = f[0] == "owner"
			f = f[1:]
			continue
		}
		break
	}
	if len(f) == 0 {
		it.T = "other"
		return
	}
	if f[0] == "abi" {
		it.T = "abi"
		if len(f) > 1 {
			it.Path = strings.Trim(f[1], "<>\",")
		}
		return
	}
	if rulesKw[f[0]] && !(f[0] == "file" && len(f) > 1) {
		it.Kind = f[0]
		if a4Kinds[f[0]] {
			it.T = "a4"
		}
		it.Path = strings.Join(f[1:], " ")
		return
	}
	if f[0] == "file" {
		f = f[1:]
	}
	first := f[0]
	if strings.HasPrefix(first, "/") || strings.HasPrefix(first, "@{") || strings.HasPrefix(first, "\"") || strings.HasPrefix(first, "{") {
		it.Kind = "file"
		it.Path = first
		if len(f) >= 2 {
			it.Perms = f[1]
			if a, m := SplitPerm(f[1]); m != "" {
				it.Mode = m
				it.R = a
				it.T = "exec"
			} else {
				it.R = f[1]
			}
		}
		if len(f) >= 4 && f[2] == "->" {
			it.Target = f[3]
		}
		return
	}
	// leading-permission form: "rw /path,"
	if isPermToken(first) && len(f) >= 2 {
		it.Kind = "file"
		it.Perms = first
		it.Path = f[1]
		if a, m := SplitPerm(first); m != "" {
			it.Mode = m
			it.R = a
			it.T = "exec"
		} else {
			it.R = first
		}
		if len(f) >= 4 && f[2] == "->" {
			it.Target = f[3]
		}
		return
	}
	it.T = "other"
}

// SplitPerm splits a permission token lexically into access letters and the exec
// transition part: the longest suffix made of transition letters that ends in x.
// It does not judge validity ("Cux" is split as acc="", mode="Cux").
func SplitPerm(p string) (acc, mode string) {
	if !strings.HasSuffix(p, "x") {
		return p, ""
	}
	i := len(p)
	for i > 0 && strings.ContainsRune("pPcCuUix", rune(p[i-1])) {
		i--
	}
	return p[:i], p[i:]
}

var rePerm = regexp.MustCompile(`^[rwamlkdDpPcCuUix]+$`)

func isPermToken(s string) bool { return s != "" && rePerm.MatchString(s) }

// Headers returns the header items of a file.
func Headers(items []Item) []Item {
	res := []Item{}
	for _, it := range items {
		if it.T == "hdr" {
			res = append(res, it)
		}
	}
	return res
}

// QualName computes the fully qualified name (parent//child) of every header.
func QualNames(items []Item) []string {
	res := []string{}
	stack := []string{}
	for _, it := range items {
		switch it.T {
		case "hdr":
			q := it.Name
			if len(stack) > 0 {
				q = stack[len(stack)-1] + "//" + it.Name
			}
			res = append(res, q)
			stack = append(stack, q)
		case "close":
			if len(stack) > 0 {
				stack = stack[:len(stack)-1]
			}
		}
	}
	return res
}
