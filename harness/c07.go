package main

// C07 (generating directives) and C02 (reproducibility / history independence):
// Directives.tla / DirectivesTrace.tla.

import (
	"encoding/json"
	"fmt"
	"os"
	"path/filepath"
	"regexp"
	"sort"
	"strings"
	"time"
)

func init() {
	checks["C07"] = checkC07
	checks["C02"] = checkC02
}

// ---------------------------------------------------------------- projections

var reDbusAccess = regexp.MustCompile(`^\(([^)]*)\)|^(send|receive|bind|eavesdrop|r|w|rw)\b`)

// parseDbusRule reads the fields of one dbus rule (text after the "dbus" keyword).
func parseDbusRule(body string) map[string]any {
	r := map[string]any{"access": []string{}, "bus": "", "path": "", "iface": "", "member": "", "bind": "", "peername": "", "peerlabel": "", "peerhasname": false}
	body = strings.TrimSpace(body)
	if m := reDbusAccess.FindStringSubmatch(body); m != nil {
		acc := m[1]
		if acc == "" {
			acc = m[2]
		}
		r["access"] = strings.FieldsFunc(acc, func(c rune) bool { return c == ' ' || c == ',' })
		body = strings.TrimSpace(body[len(m[0]):])
	}
	// peer=( ... )
	if i := strings.Index(body, "peer=("); i >= 0 {
		j := strings.LastIndex(body, ")")
		if j > i {
			peer := body[i+6 : j]
			body = body[:i] + body[j+1:]
			for _, kv := range splitConds(peer) {
				k, v, _ := strings.Cut(kv, "=")
				v = strings.Trim(v, "\"")
				switch strings.TrimSpace(k) {
				case "name":
					r["peername"] = v
				case "label":
					r["peerlabel"] = v
				}
			}
		}
	}
	for _, kv := range splitConds(body) {
		k, v, ok := strings.Cut(kv, "=")
		if !ok {
			continue
		}
		v = strings.Trim(v, "\"")
		switch strings.TrimSpace(k) {
		case "bus":
			r["bus"] = v
		case "path":
			r["path"] = v
		case "interface":
			r["iface"] = v
		case "member":
			r["member"] = v
		case "name":
			r["bind"] = v
		}
	}
	return r
}

// splitConds splits "a=b c={x,y} d=\"q r\"" on blanks / commas outside braces and quotes.
func splitConds(s string) []string {
	res := []string{}
	var cur strings.Builder
	depth := 0
	inq := false
	for _, c := range s {
		switch {
		case c == '"':
			inq = !inq
			cur.WriteRune(c)
		case inq:
			cur.WriteRune(c)
		case c == '{' || c == '(' || c == '[':
			depth++
			cur.WriteRune(c)
		case c == '}' || c == ')' || c == ']':
			depth--
			cur.WriteRune(c)
		case (c == ' ' || c == '\t' || c == '\n' || c == ',') && depth == 0:
			if cur.Len() > 0 {
				res = append(res, cur.String())
				cur.Reset()
			}
		default:
			cur.WriteRune(c)
		}
	}
	if cur.Len() > 0 {
		res = append(res, cur.String())
	}
	return res
}

type sLine struct {
	Key string `json:"key"`
	Cls string `json:"cls"`
}

// stackLines projects a profile text to the lines Directives.tla!StackOK talks about.
func stackLines(text string) []sLine {
	res := []sLine{}
	for _, it := range Scan(text) {
		if it.T == "blank" {
			continue
		}
		x := it
		if it.T == "dir" && it.Inline && it.Body != nil {
			x = *it.Body
		}
		key := strings.Join(strings.Fields(it.Raw), " ")
		cls := "rule"
		switch {
		case it.T == "dir" && !it.Inline:
			cls = "dir"
		case it.T == "hdr":
			cls = "hdr"
		case it.T == "close":
			cls = "close"
		case it.T == "cmt" && strings.HasPrefix(strings.TrimSpace(it.Raw), "# Stacked profile:"):
			cls = "stackmark"
		case it.T == "cmt":
			cls = "cmt"
		case it.T == "inc" && !it.IfExists && it.IncPath == "abstractions/base":
			cls = "base"
		case it.T == "inc" && it.IfExists && strings.HasPrefix(it.IncPath, "local/"):
			cls = "local"
		case strings.Contains(it.Raw, "@{exec_path}"):
			cls = "entry"
		case x.T == "exec":
			cls = "x"
		}
		res = append(res, sLine{key, cls})
	}
	return res
}

// topBlock returns the lines between the header of the first top-level profile and the LAST
// closing brace of the file (what the stack directive cuts out), nested headers and closing
// braces being ordinary lines of that body.
func topBlock(ls []sLine) []sLine {
	first, last := -1, -1
	for i, l := range ls {
		if l.Cls == "hdr" && first < 0 {
			first = i
		}
		if l.Cls == "close" {
			last = i
		}
	}
	if first < 0 || last <= first {
		return []sLine{}
	}
	res := []sLine{}
	for _, l := range ls[first+1 : last] {
		if l.Cls == "hdr" || l.Cls == "close" {
			l.Cls = "rule"
		}
		res = append(res, l)
	}
	return res
}

// insertedText returns the lines of after that are not in before (multiset difference, order kept).
func insertedItems(before, after string) []Item {
	cnt := map[string]int{}
	for _, it := range Scan(before) {
		cnt[strings.Join(strings.Fields(it.Raw), " ")]++
	}
	res := []Item{}
	for _, it := range Scan(after) {
		k := strings.Join(strings.Fields(it.Raw), " ")
		if cnt[k] > 0 {
			cnt[k]--
			continue
		}
		if it.T == "blank" {
			continue
		}
		res = append(res, it)
	}
	return res
}

func directiveArgs(raw string) (kind string, args []string, kv map[string]string) {
	kv = map[string]string{}
	i := strings.Index(raw, "#aa:")
	if i < 0 {
		return
	}
	f := strings.Fields(raw[i+4:])
	if len(f) == 0 {
		return
	}
	kind = f[0]
	args = f[1:]
	for _, a := range args {
		k, v, ok := strings.Cut(a, "=")
		if ok {
			kv[k] = strings.Trim(v, "\"")
		} else {
			kv[k] = ""
		}
	}
	return
}

// directiveEvents turns the hook events of one build into DirectivesTrace events.
func directiveEvents(b *Build, evs []map[string]any, src string) (recs []any, counts map[string]int) {
	counts = map[string]int{}
	srcIdx := sourceIndex(src)
	finalText := func(name string) string {
		for _, n := range []string{name, name + ".apparmor.d"} {
			if t, err := os.ReadFile(filepath.Join(b.Out, "apparmor.d", n)); err == nil {
				return string(t)
			}
		}
		return ""
	}
	for _, ev := range evs {
		if ev["ev"] != "directive" {
			continue
		}
		name := str(ev["name"])
		raw := str(ev["raw"])
		file := relBuildName(str(ev["file"]))
		_, args, kv := directiveArgs(raw)
		id := fmt.Sprintf("%s|%s|%s", file, strings.TrimSpace(raw[strings.Index(raw, "#aa:"):]), b.Cfg.Key())
		switch name {
		case "dbus":
			counts["dbus"]++
			if len(args) == 0 {
				continue
			}
			d := map[string]any{"action": args[0], "bus": kv["bus"], "name": kv["name"], "path": kv["path"], "label": kv["label"],
				"defpath": "/" + strings.ReplaceAll(kv["name"], ".", "/") + "{,/**}"}
			ifaces := []string{}
			if v, ok := kv["interface"]; ok {
				ifaces = append(ifaces, v)
				if v2, ok := kv["interface+"]; ok {
					ifaces = append(ifaces, v2)
				}
			} else if v2, ok := kv["interface+"]; ok {
				ifaces = append(ifaces, kv["name"]+"{,.*}", v2)
			}
			d["ifaces"] = ifaces
			rules := []any{}
			for _, it := range insertedItems(str(ev["before"]), str(ev["after"])) {
				if it.T == "rule" && it.Kind == "dbus" {
					r := parseDbusRule(it.Path)
					r["peerhasname"] = strings.Contains(str(r["peername"]), kv["name"]+"{,.*}")
					rules = append(rules, r)
				}
			}
			recs = append(recs, map[string]any{"ev": "dbus", "id": id, "d": d, "rules": rules})
		case "exec":
			counts["exec"]++
			trans := "Px"
			targets := args
			if len(args) > 0 {
				switch args[0] {
				case "P", "U", "p", "u", "PU", "pu":
					trans = args[0] + "x"
					targets = args[1:]
				}
			}
			tl := []any{}
			for _, t := range targets {
				n := 0
				if p, ok := srcIdx[t]; ok {
					if tx, err := os.ReadFile(p); err == nil {
						for _, it := range Scan(string(tx)) {
							if it.T == "var" && it.VarName == "@{exec_path}" {
								n += len(it.Values)
							}
						}
					}
				}
				tl = append(tl, map[string]any{"name": t, "nexec": n})
			}
			rules := []any{}
			for _, it := range insertedItems(str(ev["before"]), str(ev["after"])) {
				x := it
				if x.T == "exec" || x.T == "rule" {
					acc, mode := SplitPerm(x.Perms)
					rules = append(rules, map[string]any{"mode": mode, "acc": acc, "tgt": x.Target != "", "path": x.Path})
				}
			}
			recs = append(recs, map[string]any{"ev": "exec", "id": id, "d": map[string]any{"trans": trans, "targets": tl}, "rules": rules})
		case "stack":
			counts["stack"]++
			x := len(args) > 0 && args[0] == "X"
			names := args
			if x {
				names = args[1:]
			}
			tg := []any{}
			for _, n := range names {
				tg = append(tg, topBlock(stackLines(finalText(n))))
			}
			recs = append(recs, map[string]any{"ev": "stack", "id": id, "d": map[string]any{"x": x, "names": names, "raw": strings.Join(strings.Fields(str(ev["raw"])), " ")},
				"before": stackLines(str(ev["before"])), "after": stackLines(str(ev["after"])), "targets": tg})
		}
	}
	// leftovers in the written tree
	root := filepath.Join(b.Out, "apparmor.d")
	for _, fn := range listFiles(root) {
		fi, err := os.Lstat(filepath.Join(root, fn))
		if err != nil || !fi.Mode().IsRegular() {
			continue
		}
		t, _ := os.ReadFile(filepath.Join(root, fn))
		for _, l := range strings.Split(string(t), "\n") {
			if strings.Contains(l, "#aa:") {
				recs = append(recs, map[string]any{"ev": "leftover", "id": fmt.Sprintf("%s|leftover|%s", fn, b.Cfg.Key()), "line": strings.TrimSpace(l)})
			}
		}
	}
	return
}

func runDirectivesTrace(e *Env, r *Report, recs []any, prop string) {
	tp := filepath.Join(e.Scratch, "directives-"+prop+".ndjson")
	if err := writeNDJSON(tp, recs); err != nil {
		r.Fatal = err.Error()
		return
	}
	res, err := e.RunTLC(TLCOpts{Module: "DirectivesTrace", Workers: 1, Timeout: 30 * 60 * 1e9, Env: map[string]string{"VERIF_TRACE": tp}})
	if err != nil {
		r.Fatal = err.Error()
		return
	}
	r.AddTLC(res)
	if !res.Healthy() {
		r.Fatal = "DirectivesTrace did not complete: " + res.Err + tail(res.Out, 1500)
		return
	}
	r.Traces += len(recs)
	for _, p := range res.PrintsWithPrefix("VIOL") {
		var x struct {
			P    string          `json:"p"`
			ID   string          `json:"id"`
			What string          `json:"what"`
			D    json.RawMessage `json:"d"`
		}
		if err := json.Unmarshal([]byte(p), &x); err != nil {
			r.Fatal = "bad VIOL line"
			return
		}
		if x.P != prop {
			continue
		}
		parts := strings.Split(x.ID, "|")
		key := strings.Join(parts[:len(parts)-1], "|")
		r.Violate(prop+"|"+key, fmt.Sprintf("%s [%s]", x.What, parts[len(parts)-1]), map[string]any{"id": x.ID, "detail": x.D})
	}
}

func directiveCfgs(e *Env) []Cfg {
	if e.Tier == "thorough" {
		res := []Cfg{}
		for _, c := range AllCfgs() {
			if c.Mode == "complain" {
				res = append(res, c)
			}
		}
		return res
	}
	res := []Cfg{}
	seen := map[string]bool{}
	for i, c := range quickCfgs(e.Seed) {
		c.Mode = "complain"
		if i%2 == 0 {
			c.Full = true
		}
		if !seen[c.Key()] {
			seen[c.Key()] = true
			res = append(res, c)
		}
	}
	return res[:min(len(res), 8)]
}

func checkC07(e *Env, r *Report) {
	f := famSetup(e, r)
	if f == nil {
		return
	}
	cfgs := directiveCfgs(e)
	recs := []any{}
	total := map[string]int{}
	seen := map[string]bool{}
	for s := 0; s < len(cfgs); s += 8 {
		end := min(s+8, len(cfgs))
		builds := make([]*Build, end-s)
		parallel(end-s, 8, func(i int) { builds[i] = e.RunPrebuild(cfgs[s+i], BuildOpts{Src: f.aug, Tag: "aug", NoCache: true}) })
		for _, b := range builds {
			if b.Err != nil {
				r.Fatal = b.Err.Error()
				return
			}
			evs, err := readEvents(b.Trace)
			if err != nil {
				r.Fatal = err.Error()
				return
			}
			rs, cnt := directiveEvents(b, evs, f.aug)
			for k, v := range cnt {
				total[k] += v
			}
			for _, rec := range rs {
				m := rec.(map[string]any)
				// identical applications in several configurations are validated once
				cp := map[string]any{}
				for k, v := range m {
					if k != "id" {
						cp[k] = v
					}
				}
				kb, _ := json.Marshal(cp)
				k := sha(kb)
				if seen[k] {
					continue
				}
				seen[k] = true
				recs = append(recs, rec)
			}
			b.Drop()
		}
	}
	r.Coverage["configs"] = len(cfgs)
	r.Coverage["applications"] = total
	r.Coverage["distinct_events"] = len(recs)
	if total["dbus"] == 0 || total["stack"] == 0 || total["exec"] == 0 {
		r.Fatal = fmt.Sprintf("directive hook events missing: %v", total)
		return
	}
	for _, rec := range recs {
		if rec.(map[string]any)["ev"] == "exec" {
			r.Sample(rec)
			break
		}
	}
	r.Sample(recs[0])
	runDirectivesTrace(e, r, recs, "C07")
}

// ---------------------------------------------------------------- C02

func hashTree(out string) map[string]string {
	res := map[string]string{}
	for _, sub := range []string{"apparmor.d", "systemd", "share"} {
		for k, v := range treeEntries(filepath.Join(out, sub)) {
			res[sub+"/"+k] = v
		}
	}
	return res
}

// reducedSource builds a source tree holding only the given profile files (plus everything
// that is not a profile: abstractions, tunables, mappings, the _full group, manifests ...).
func reducedSource(e *Env, full string, keep map[string]bool, name string) (string, error) {
	dst := filepath.Join(e.Scratch, name)
	if err := os.MkdirAll(filepath.Join(dst, "apparmor.d"), 0o755); err != nil {
		return "", err
	}
	for _, d := range []string{"dists", "systemd", "share"} {
		if out, err := execCmd("cp", "-al", filepath.Join(full, d), filepath.Join(dst, d)); err != nil {
			return "", fmt.Errorf("%v %s", err, out)
		}
	}
	ents, _ := os.ReadDir(filepath.Join(full, "apparmor.d"))
	for _, en := range ents {
		n := en.Name()
		if n == "groups" || strings.HasPrefix(n, "profiles-") {
			continue
		}
		if out, err := execCmd("cp", "-al", filepath.Join(full, "apparmor.d", n), filepath.Join(dst, "apparmor.d", n)); err != nil {
			return "", fmt.Errorf("%v %s", err, out)
		}
	}
	for _, pf := range profileFiles(full) {
		base := strings.TrimSuffix(filepath.Base(pf), ".apparmor.d")
		inFull := strings.HasPrefix(pf, "groups/_full/")
		if !keep[base] && !inFull {
			continue
		}
		d := filepath.Join(dst, "apparmor.d", pf)
		_ = os.MkdirAll(filepath.Dir(d), 0o755)
		if err := os.Link(filepath.Join(full, "apparmor.d", pf), d); err != nil {
			return "", err
		}
	}
	// the merge task needs both directory families to exist
	_ = os.MkdirAll(filepath.Join(dst, "apparmor.d", "groups", "vgen-empty"), 0o755)
	_ = os.MkdirAll(filepath.Join(dst, "apparmor.d", "profiles-a-f"), 0o755)
	return dst, nil
}

// namedProfiles: the profiles a source text names in stack / exec directives (transitively).
func namedClosure(src string, idx map[string]string, name string, seen map[string]bool) {
	if seen[name] {
		return
	}
	seen[name] = true
	p, ok := idx[name]
	if !ok {
		return
	}
	t, err := os.ReadFile(p)
	if err != nil {
		return
	}
	for _, it := range Scan(string(t)) {
		if it.T == "dir" && (it.DKind == "stack" || it.DKind == "exec") {
			for i, a := range it.Args {
				if i == 0 && (a == "X" || a == "P" || a == "U" || a == "p" || a == "u" || a == "PU" || a == "pu") {
					continue
				}
				namedClosure(src, idx, a, seen)
			}
		}
	}
}

func checkC02(e *Env, r *Report) {
	f := famSetup(e, r)
	if f == nil {
		return
	}
	// the order of the hook events of one real run against the pipeline state machine
	pipelinePhase(e, r, f.aug, Cfg{"arch", 4, "4.1", "complain", true})
	recs := []any{}
	// (1) repetition and stale-directory independence
	var cfgs []Cfg
	if e.Tier == "thorough" {
		for i, c := range AllCfgs() {
			if i%5 == int(e.Seed)%5 || c.Full {
				cfgs = append(cfgs, c)
			}
		}
	} else {
		cfgs = []Cfg{DefaultCfg("arch"), {"arch", 4, "4.1", "complain", true}, {"debian", 3, "3.0", "none", true}, {"ubuntu", 4, "4.0", "enforce", false}, {"opensuse", 4, "4.1", "complain", true}}
	}
	reps := 3
	if e.Tier == "thorough" {
		reps = 5
	}
	type res struct {
		h   map[string]string
		err error
	}
	results := make([][]res, len(cfgs))
	parallel(len(cfgs), 6, func(i int) {
		c := cfgs[i]
		for k := 0; k < reps; k++ {
			o := BuildOpts{Src: f.aug, Tag: fmt.Sprint("rep", k), NoCache: true}
			if k > 0 {
				// over what a build of ANOTHER configuration left behind, plus junk
				other := cfgs[(i+k)%len(cfgs)]
				other.Full = !c.Full
				o.PreRun = func(dir string) error {
					pb := e.RunPrebuild(other, BuildOpts{Src: f.aug, Tag: "stale", NoCache: true})
					if pb.Err != nil {
						return pb.Err
					}
					defer pb.Drop()
					if out, err := execCmd("cp", "-a", pb.Out, filepath.Join(dir, ".build")); err != nil {
						return fmt.Errorf("%v %s", err, out)
					}
					for _, j := range []string{".build/apparmor.d/zz-stale", ".build/systemd/system/stale.service.d/apparmor.conf", ".build/share/stale", ".build/apparmor.d/abstractions/stale.d/x"} {
						p := filepath.Join(dir, j)
						_ = os.MkdirAll(filepath.Dir(p), 0o755)
						_ = os.WriteFile(p, []byte("stale\n"), 0o644)
					}
					return nil
				}
			}
			b := e.RunPrebuild(c, o)
			if b.Err != nil {
				results[i] = append(results[i], res{nil, b.Err})
				return
			}
			results[i] = append(results[i], res{hashTree(b.Out), nil})
			b.Drop()
		}
	})
	nCmp := 0
	for i, c := range cfgs {
		for k, rs := range results[i] {
			if rs.err != nil {
				r.Fatal = rs.err.Error()
				return
			}
			if k == 0 {
				continue
			}
			a, b := results[i][0].h, rs.h
			names := map[string]bool{}
			for n := range a {
				names[n] = true
			}
			for n := range b {
				names[n] = true
			}
			ns := []string{}
			for n := range names {
				ns = append(ns, n)
			}
			sort.Strings(ns)
			diff := 0
			for _, n := range ns {
				nCmp++
				if a[n] != b[n] {
					diff++
					recs = append(recs, map[string]any{"ev": "same", "id": fmt.Sprintf("rerun|%s|%s", n, c.Key()), "what": "two runs of the same configuration (the second over a stale build directory) give different bytes", "a": a[n], "b": b[n]})
				}
			}
			recs = append(recs, map[string]any{"ev": "same", "id": fmt.Sprintf("rerun|summary|%s", c.Key()), "what": "number of differing entries between two runs", "a": 0, "b": diff})
		}
	}
	r.Coverage["rerun_configs"] = len(cfgs)
	r.Coverage["rerun_entries_compared"] = nCmp
	// (2) neighbour independence: a file built with only the profiles it names
	idx := sourceIndex(f.aug)
	all := []string{}
	for _, pf := range profileFiles(f.aug) {
		if !strings.HasPrefix(pf, "groups/_full/") {
			all = append(all, strings.TrimSuffix(filepath.Base(pf), ".apparmor.d"))
		}
	}
	sort.Strings(all)
	// candidates: every file with a stack/exec directive, every history probe, and a seeded sample
	cand := map[string]bool{}
	for _, n := range all {
		t, _ := os.ReadFile(idx[n])
		if strings.Contains(n, "vgen-hist") || strings.Contains(n, "vgen-x") || strings.Contains(string(t), "#aa:stack") || strings.Contains(string(t), "#aa:exec") {
			cand[n] = true
		}
	}
	nSample := 60
	if e.Tier == "thorough" {
		nSample = len(all)
	}
	for i := 0; i < nSample && i < len(all); i++ {
		cand[all[(i*7919+int(e.Seed)*31)%len(all)]] = true
	}
	cl := []string{}
	for n := range cand {
		cl = append(cl, n)
	}
	sort.Strings(cl)
	nbCfgs := []Cfg{{"arch", 4, "4.1", "complain", true}, {"debian", 3, "3.0", "none", false}}
	if e.Tier == "thorough" {
		nbCfgs = append(nbCfgs, Cfg{"opensuse", 4, "4.0", "enforce", true}, Cfg{"ubuntu", 4, "4.0", "complain", false})
	}
	nNb := 0
	for _, c := range nbCfgs {
		fullB := e.RunPrebuild(c, BuildOpts{Src: f.aug, Tag: "nbfull", NoCache: true})
		if fullB.Err != nil {
			r.Fatal = fullB.Err.Error()
			return
		}
		fullH := treeEntries(filepath.Join(fullB.Out, "apparmor.d"))
		// twins: the same body under two names, processed before and after the profile it stacks: the same text
		{
			rd := func(n string) string {
				t, _ := os.ReadFile(filepath.Join(fullB.Out, "apparmor.d", n))
				return strings.ReplaceAll(string(t), n, "TWIN")
			}
			a, z := rd("aa-vgen-hist-twin"), rd("zz-vgen-hist-twin")
			if a != "" || z != "" {
				recs = append(recs, map[string]any{"ev": "same", "id": fmt.Sprintf("twins|aa-vgen-hist-twin~zz-vgen-hist-twin|%s", c.Key()),
					"what": "two profiles with the same body, one processed before the profile they stack and one after it, are written differently", "a": shaS(a), "b": shaS(z)})
			}
		}
		type one struct {
			name string
			h    string
			ok   bool
			err  error
		}
		outs := make([]one, len(cl))
		parallel(len(cl), 12, func(i int) {
			n := cl[i]
			keep := map[string]bool{}
			namedClosure(f.aug, idx, n, keep)
			for _, pf := range profileFiles(f.aug) { // the full-policy profiles are always installed: keep what they name
				if strings.HasPrefix(pf, "groups/_full/") {
					namedClosure(f.aug, idx, filepath.Base(pf), keep)
				}
			}
			rs, err := reducedSource(e, f.aug, keep, fmt.Sprintf("red-%s-%d", c.Key(), i))
			if err != nil {
				outs[i] = one{name: n, err: err}
				return
			}
			defer os.RemoveAll(rs)
			b := e.RunPrebuild(c, BuildOpts{Src: rs, Tag: "red", NoCache: true})
			defer b.Drop()
			if b.Err != nil {
				outs[i] = one{name: n, err: b.Err}
				return
			}
			h := treeEntries(filepath.Join(b.Out, "apparmor.d"))
			for _, nn := range []string{n, n + ".apparmor.d"} {
				if v, ok := h[nn]; ok {
					outs[i] = one{name: nn, h: v, ok: true}
					return
				}
			}
			outs[i] = one{name: n}
		})
		for _, o := range outs {
			if o.err != nil {
				r.Inconcl = append(r.Inconcl, fmt.Sprintf("reduced build of %s: %v", o.name, strings.ReplaceAll(tail(o.err.Error(), 900), "\n", " | ")))
				continue
			}
			if !o.ok {
				continue // ignored on this distribution
			}
			nNb++
			recs = append(recs, map[string]any{"ev": "same", "id": fmt.Sprintf("alone|%s|%s", o.name, c.Key()),
				"what": "the text written for a profile differs between the whole build and a build holding only that profile and the profiles it names", "a": fullH[o.name], "b": o.h})
		}
		fullB.Drop()
	}
	r.Coverage["alone_vs_whole_comparisons"] = nNb
	// (4) builds that cannot succeed: a directive that names a profile the build does not hold (missing, or renamed
	// by the overwrite task of an ABI 4 build) must fail the same way on every run
	{
		prof := func(name, body string) string {
			return "abi <abi/4.0>,\n\ninclude <tunables/global>\n\n@{exec_path} = @{bin}/" + name + "\nprofile " + name + " @{exec_path} {\n  include <abstractions/base>\n\n  @{exec_path} mr,\n\n" + body + "  include if exists <local/" + name + ">\n}\n"
		}
		scen := map[string]map[string]string{
			"exec-overwritten": {"dists/overwrite": "# overwrite\nvover\n", "apparmor.d/groups/vo/vover": prof("vover", ""), "apparmor.d/groups/vo/vother": prof("vother", ""),
				"apparmor.d/groups/vo/vhost": prof("vhost", "  #aa:exec vover vother\n\n")},
			"exec-missing":  {"apparmor.d/groups/vo/vother": prof("vother", ""), "apparmor.d/groups/vo/vhost": prof("vhost", "  #aa:exec vnothere vother\n\n")},
			"stack-missing": {"apparmor.d/groups/vo/vother": prof("vother", "  /etc/o r,\n\n"), "apparmor.d/groups/vo/vhost": prof("vhost", "  #aa:stack vother vnothere\n\n")},
		}
		names := []string{}
		for n := range scen {
			names = append(names, n)
		}
		sort.Strings(names)
		runs := 24
		if e.Tier == "thorough" {
			runs = 64
		}
		nFail := 0
		for _, n := range names {
			mini, err := e.MiniSrc("mini-fail-"+n, scen[n])
			if err != nil {
				r.Fatal = err.Error()
				return
			}
			outcomes := make([]string, runs)
			parallel(runs, 8, func(i int) {
				b := e.RunPrebuild(Cfg{"arch", 4, "4.1", "complain", false}, BuildOpts{Src: mini, Tag: fmt.Sprint("fail", n, i), NoCache: true})
				defer b.Drop()
				h := hashTree(b.Out)
				ks := []string{}
				for k, v := range h {
					ks = append(ks, k+"="+v)
				}
				sort.Strings(ks)
				msg := "built"
				if b.Err != nil {
					msg = "failed"
					for _, l := range strings.Split(reANSI.ReplaceAllString(b.Stdout, ""), "\n") {
						if strings.Contains(l, "panic: ") || strings.Contains(l, "Error: ") {
							msg = "failed: " + strings.TrimSpace(l)
							break
						}
					}
				}
				outcomes[i] = msg + " " + shaS(strings.Join(ks, "\n"))
			})
			nFail += runs
			for i := 1; i < runs; i++ {
				recs = append(recs, map[string]any{"ev": "same", "id": fmt.Sprintf("cannot-build|%s|run%d", n, i), "what": "two runs of a build that names a profile it does not hold (" + n + ") end differently", "a": outcomes[0], "b": outcomes[i]})
			}
		}
		r.Coverage["cannot_build_runs"] = nFail
	}
	// (3) the configuration the tool works out by itself: without $DISTRIBUTION the distribution comes from the
	// host's os-release; the same os-release must give the same run every time (outcome, output, message)
	if recsD, n, skipped := detectPhase(e, r); skipped != "" {
		r.Assume = append(r.Assume, "host auto-detection not exercised: "+skipped)
	} else {
		recs = append(recs, recsD...)
		r.Coverage["autodetect_runs"] = n
	}
	if len(r.Inconcl) > 5 {
		r.Fatal = fmt.Sprintf("%d reduced builds failed, e.g. %s", len(r.Inconcl), r.Inconcl[0])
		return
	}
	r.Sample(recs[len(recs)-1])
	r.Assume = append(r.Assume, "Go map iteration order is sampled by repetition: a missed nondeterminism is possible, a false one is not")
	runDirectivesTrace(e, r, recs, "C02")
}

// detectPhase: the os-release universe of MC_Detect replayed through the real prebuild binary, on a minimal
// source, without (or with) $DISTRIBUTION, in a private mount namespace where the generated file is
// /etc/os-release. Every run of one input must end the same (C02); what it ends with is compared with the
// model's distribution (a disagreement is drift of the model, not a verdict).
var reUnsupported = regexp.MustCompile(`(\S*) is not a supported distribution`)

func detectPhase(e *Env, r *Report) ([]any, int, string) {
	if out, err := execCmd("unshare", "-m", "sh", "-c", "mount --bind /etc/hostname /etc/hostname"); err != nil {
		return nil, 0, "no private mount namespace in this sandbox (" + strings.TrimSpace(tail(out, 120)) + ")"
	}
	res, err := e.RunTLC(TLCOpts{Module: "MC_Detect", Workers: 1, Timeout: 5 * time.Minute})
	if err != nil {
		return nil, 0, err.Error()
	}
	r.AddTLC(res)
	if !res.Healthy() {
		r.Drift = append(r.Drift, "MC_Detect (design check of the distribution detection) did not pass")
		return nil, 0, "MC_Detect did not complete"
	}
	r.Coverage["autodetect_leads"] = len(res.PrintsWithPrefix("LEADD"))
	// every distribution leaves its mark on the output: its ignore list drops one profile of its own
	perDist := map[string]string{}
	for _, d := range Dists {
		perDist["apparmor.d/groups/vdist/vdist-"+d] = "abi <abi/4.0>,\n\ninclude <tunables/global>\n\n@{exec_path} = @{bin}/vdist-" + d + "\nprofile vdist-" + d + " @{exec_path} {\n  include <abstractions/base>\n\n  @{exec_path} mr,\n\n  include if exists <local/vdist-" + d + ">\n}\n"
		perDist["dists/ignore/"+d+".ignore"] = "# " + d + "\nvdist-" + d + "\n"
		perDist["dists/flags/"+d+".flags"] = "# " + d + "\n"
	}
	mini, err := e.MiniSrc("mini-detect", perDist)
	if err != nil {
		return nil, 0, err.Error()
	}
	type beh struct {
		ID     string   `json:"id"`
		Like   []string `json:"like"`
		Env    string   `json:"env"`
		Judged bool     `json:"judged"`
		Want   string   `json:"want"`
		Builds bool     `json:"builds"`
		Amb    int      `json:"amb"`
	}
	many := 32
	if e.Tier == "thorough" {
		many = 96
	}
	recs := []any{}
	total := 0
	for bi, p := range res.PrintsWithPrefix("BEHD") {
		var b beh
		if json.Unmarshal([]byte(p), &b) != nil || !b.Judged {
			continue
		}
		runs := 2
		switch {
		case b.Env != "":
			if e.Tier != "thorough" && (bi+int(e.Seed))%6 != 0 {
				continue
			}
			runs = 1
		case b.Amb >= 2:
			runs = many
		}
		text := ""
		if b.ID != "" {
			text += "ID=" + b.ID + "\n"
		}
		if len(b.Like) == 1 {
			text += "ID_LIKE=" + b.Like[0] + "\n"
		} else if len(b.Like) > 1 {
			text += "ID_LIKE=\"" + strings.Join(b.Like, " ") + "\"\n"
		}
		name := fmt.Sprintf("%s~%s~%s", b.ID, strings.Join(b.Like, "+"), b.Env)
		f := filepath.Join(e.Scratch, fmt.Sprintf("osr-%d", bi))
		if err := os.WriteFile(f, []byte(text), 0o644); err != nil {
			return nil, 0, err.Error()
		}
		outcomes := make([]string, runs)
		parallel(runs, 8, func(i int) {
			bd := e.RunPrebuild(Cfg{"-", 4, "4.1", "complain", false}, BuildOpts{Src: mini, Tag: fmt.Sprint("osr", bi, "-", i), NoCache: true, OSRelease: f, EnvDist: b.Env})
			defer bd.Drop()
			if bd.Err != nil {
				if m := reUnsupported.FindStringSubmatch(reANSI.ReplaceAllString(bd.Stdout, "")); m != nil {
					outcomes[i] = "unsupported:" + m[1]
				} else {
					outcomes[i] = "failed: " + tail(strings.TrimSpace(bd.Stdout), 80)
				}
				return
			}
			gone := []string{}
			for _, d := range Dists {
				if _, err := os.Stat(filepath.Join(bd.Out, "apparmor.d", "vdist-"+d)); err != nil {
					gone = append(gone, d)
				}
			}
			h := hashTree(bd.Out)
			ks := []string{}
			for k, v := range h {
				ks = append(ks, k+"="+v)
			}
			sort.Strings(ks)
			outcomes[i] = "built:" + strings.Join(gone, ",") + " " + shaS(strings.Join(ks, "\n"))
		})
		total += runs
		want := "unsupported:" + b.Want
		if b.Builds {
			want = "built:" + b.Want + " "
		}
		if !strings.HasPrefix(outcomes[0], want) && len(r.Drift) < 10 {
			r.Drift = append(r.Drift, fmt.Sprintf("Detect: os-release %q env %q: the model expects %q, the real run ends with %q", strings.ReplaceAll(strings.TrimSpace(text), "\n", " "), b.Env, want, outcomes[0]))
		}
		for i := 1; i < runs; i++ {
			recs = append(recs, map[string]any{"ev": "same", "id": fmt.Sprintf("detect|%s|run%d", name, i), "what": "two runs without $DISTRIBUTION on a host with the same os-release (" + strings.ReplaceAll(strings.TrimSpace(text), "\n", " ") + ") end differently", "a": outcomes[0], "b": outcomes[i]})
		}
	}
	return recs, total, ""
}
