package main

// C03: only / exclude directives (Filter.tla). Model phase (MC_Filter) -> every explored
// file replayed through the REAL directive.Run under every (distribution, ABI, version);
// field phase: hook events of every only/exclude application in real builds.

import (
	"encoding/json"
	"fmt"
	"math/rand"
	"os"
	"path/filepath"
	"regexp"
	"sort"
	"strings"
	"sync"
	"time"

	"github.com/roddhjav/apparmor.d/pkg/paths"
	"github.com/roddhjav/apparmor.d/pkg/prebuild"
	"github.com/roddhjav/apparmor.d/pkg/prebuild/directive"
)

func init() { checks["C03"] = checkC03 }

type fLine struct {
	K   string   `json:"k"`
	Key string   `json:"key"`
	DK  string   `json:"dk"`
	FS  []string `json:"fs"`
	Ind int      `json:"ind"`
}

var reFilterMarker = regexp.MustCompile(`#aa:(only|exclude)( .*)?$`)

// projectLines: physical lines -> Filter.tla lines.
func projectLines(text string) []fLine {
	res := []fLine{}
	lines := strings.Split(text, "\n")
	if n := len(lines); n > 0 && lines[n-1] == "" {
		lines = lines[:n-1]
	}
	for _, l := range lines {
		t := strings.TrimSpace(l)
		ind := (len(l) - len(strings.TrimLeft(l, " "))) / 2
		switch {
		case t == "":
			res = append(res, fLine{K: "blank", FS: []string{}})
		case t == "}":
			res = append(res, fLine{K: "close", Key: "}", FS: []string{}})
		case reBlockOpen.MatchString(t) && !strings.Contains(t, "#aa:"):
			res = append(res, fLine{K: "bopen", Key: reBlockOpen.FindStringSubmatch(t)[1], FS: []string{}})
		default:
			if m := reFilterMarker.FindStringSubmatchIndex(l); m != nil {
				left := strings.TrimSpace(l[:m[0]])
				dk := l[m[2]:m[3]]
				fs := []string{}
				if m[4] >= 0 {
					fs = strings.Fields(l[m[4]:m[5]])
				}
				if left == "" {
					res = append(res, fLine{K: "open", DK: dk, FS: fs, Ind: ind})
				} else {
					res = append(res, fLine{K: "inl", Key: strings.Join(strings.Fields(left), " "), DK: dk, FS: fs, Ind: ind})
				}
			} else {
				// indentation is layout: it only matters on marker lines (substring matching of the raw directive)
				res = append(res, fLine{K: "line", Key: strings.Join(strings.Fields(t), " "), FS: []string{}, Ind: 0})
			}
		}
	}
	return res
}

func concretiseLines(ls []fLine) string { return concretiseLinesInd(ls, false) }

// trailing: marker lines end with a blank after their last filter (layout again)
func concretiseLinesTrail(ls []fLine) string {
	lines := strings.Split(concretiseLinesInd(ls, false), "\n")
	for i, l := range lines {
		if strings.Contains(l, "#aa:") {
			lines[i] = l + " "
		}
	}
	return strings.Join(lines, "\n")
}

// odd: marker lines are indented by an odd number of blanks (same abstract file: indentation is layout)
func concretiseLinesInd(ls []fLine, odd bool) string {
	var b strings.Builder
	for _, l := range ls {
		ind := strings.Repeat("  ", l.Ind)
		if odd && l.Ind >= 1 && (l.K == "open" || l.K == "inl") {
			ind += " "
		}
		switch l.K {
		case "blank":
			b.WriteString("\n")
		case "close":
			b.WriteString("}\n")
		case "bopen":
			b.WriteString(ind + "profile " + l.Key + " {\n")
		case "line":
			b.WriteString(ind + "/usr/bin/" + l.Key + " r,\n")
		case "inl":
			b.WriteString(ind + "/usr/bin/" + l.Key + " r, #aa:" + l.DK + " " + strings.Join(l.FS, " ") + "\n")
		case "open":
			b.WriteString(ind + "#aa:" + l.DK + " " + strings.Join(l.FS, " ") + "\n")
		}
	}
	return b.String()
}

var reBlockOpen = regexp.MustCompile(`^profile (\S+) \{$`)

var runMu sync.Mutex

// runDirectives calls the real directive.Run with the package-level target set.
func runDirectives(c Cfg, text string) (out string, err error) {
	runMu.Lock()
	defer runMu.Unlock()
	defer func() {
		if p := recover(); p != nil {
			err = fmt.Errorf("panic: %v", p)
		}
	}()
	prebuild.Distribution = c.Dist
	prebuild.Family = FamilyOf(c.Dist)
	prebuild.ABI = c.ABI
	var v float64
	fmt.Sscan(c.Ver, &v)
	prebuild.Version = v
	return directive.Run(paths.New("/nonexistent/apparmor.d/vgen-filter"), text)
}

func checkC03(e *Env, r *Report) {
	if err := e.BuildTools(); err != nil {
		r.Fatal = err.Error()
		return
	}
	if err := e.CopySource(); err != nil {
		r.Fatal = err.Error()
		return
	}
	flen := "3"
	if e.Tier == "thorough" {
		flen = "4"
	}
	res, err := e.RunTLC(TLCOpts{Module: "MC_Filter", Workers: 12, Timeout: 20 * time.Minute, Env: map[string]string{"VERIF_FILTER_LEN": flen, "VERIF_FILTER_EMITLEN": "3"}})
	if err != nil {
		r.Fatal = err.Error()
		return
	}
	r.AddTLC(res)
	if !res.Healthy() {
		r.Fatal = "MC_Filter did not complete: " + res.Err + tail(res.Out, 1000)
		return
	}
	leads := res.PrintsWithPrefix("LEAD")
	r.Coverage["model_leads"] = len(leads)
	files := [][]fLine{}
	for _, p := range res.PrintsWithPrefix("BEH") {
		var beh struct {
			Src []fLine `json:"src"`
		}
		if err := json.Unmarshal([]byte(p), &beh); err != nil {
			r.Fatal = "bad BEH: " + err.Error()
			return
		}
		files = append(files, beh.Src)
	}
	r.Coverage["model_files"] = len(files)
	if len(files) == 0 {
		r.Fatal = "MC_Filter emitted no file"
		return
	}
	// longer files from the same menu, seeded (beyond the exhaustive bound)
	rng := rand.New(rand.NewSource(e.Seed))
	menu := []fLine{{K: "line", Key: "r1", FS: []string{}, Ind: 1}, {K: "line", Key: "r2", FS: []string{}, Ind: 1}, {K: "line", Key: "r3", FS: []string{}, Ind: 2}, {K: "blank", FS: []string{}}, {K: "blank", FS: []string{}}, {K: "close", Key: "}", FS: []string{}}}
	fsets := [][]string{{"arch"}, {"apt"}, {"abi3"}, {"abi4"}, {"apparmor4.1"}, {"debian", "zypper"}, {"whonix", "ubuntu"}, {"pacman", "apparmor4.0"}}
	for _, dk := range []string{"only", "exclude"} {
		for _, fs := range fsets {
			menu = append(menu, fLine{K: "inl", Key: "g1", DK: dk, FS: fs, Ind: 1}, fLine{K: "inl", Key: "g2", DK: dk, FS: fs, Ind: 2},
				fLine{K: "open", DK: dk, FS: fs, Ind: 1}, fLine{K: "open", DK: dk, FS: fs, Ind: 2})
		}
	}
	nRand := 1500
	if e.Tier == "thorough" {
		nRand = 20000
	}
	for i := 0; i < nRand; i++ {
		n := 4 + rng.Intn(6)
		f := make([]fLine, n)
		for j := range f {
			f[j] = menu[rng.Intn(len(menu))]
		}
		files = append(files, f)
	}
	cfgs := []Cfg{}
	for _, d := range Dists {
		for _, abi := range []int{3, 4} {
			for _, v := range Vers {
				cfgs = append(cfgs, Cfg{d, abi, v, "none", false})
			}
		}
	}
	recs := []any{}
	seen := map[string]bool{}
	nReplay := 0
	for fi, f := range files {
		text := concretiseLines(f)
		src := unkey(projectLines(text))
		// self-check of the abstraction: project(concretise(a)) = a
		sb, _ := json.Marshal(src)
		f0 := make([]fLine, len(f))
		copy(f0, f)
		for i := range f0 {
			if f0[i].K == "line" {
				f0[i].Ind = 0
			}
		}
		fb, _ := json.Marshal(f0)
		if string(sb) != string(fb) {
			r.Fatal = fmt.Sprintf("abstraction self-check failed for %s vs %s", fb, sb)
			return
		}
		for _, c := range cfgs {
			if fi >= len(files)-nRand && (fi+len(c.Dist)+c.ABI)%3 != 0 {
				continue // random files: a third of the configurations each
			}
			for variant := 0; variant < 3; variant++ {
				vtext := text
				if variant >= 1 {
					if fi >= len(files)-nRand {
						break // odd indentation / trailing blank: for the enumerated files
					}
					if variant == 1 {
						vtext = concretiseLinesInd(f, true)
					} else {
						vtext = concretiseLinesTrail(f)
					}
					if vtext == text {
						continue
					}
				}
				out, err := runDirectives(c, vtext)
				nReplay++
				var outL []fLine
				if err != nil {
					outL = []fLine{{K: "line", Key: "ERROR " + err.Error(), FS: []string{}}}
				} else {
					outL = unkey(projectLines(out))
				}
				ob, _ := json.Marshal(outL)
				// the expected outcome only depends on which of the file's filter tokens name the
				// target: de-duplicate on (source, output, matching tokens)
				match := []string{}
				toks := map[string]bool{c.Dist: true, FamilyOf(c.Dist): true, fmt.Sprintf("abi%d", c.ABI): true, "apparmor" + c.Ver: true}
				for _, l := range src {
					for _, t := range l.FS {
						if toks[t] {
							match = append(match, t)
						}
					}
				}
				sort.Strings(match)
				k := string(sb) + "|" + string(ob) + "|" + strings.Join(match, ",")
				if seen[k] {
					continue
				}
				seen[k] = true
				vid := ""
				if variant == 1 {
					vid = "odd-indent|"
				} else if variant == 2 {
					vid = "trailing-blank|"
				}
				recs = append(recs, map[string]any{"ev": "file", "id": fmt.Sprintf("gen|%s%s|%s", vid, compactLines(f), c.Key()), "cfg": c, "src": src, "out": outL})
			}
		}
	}
	r.Coverage["replays_real_directive_run"] = nReplay
	nGen := len(recs)
	// field: every only/exclude application of real builds
	var fcfgs []Cfg
	if e.Tier == "thorough" {
		fcfgs = cfgs
	} else {
		fcfgs = []Cfg{}
		for i, c := range cfgs {
			if (i+int(e.Seed))%3 == 0 {
				fcfgs = append(fcfgs, c)
			}
		}
	}
	builds := make([]*Build, len(fcfgs))
	parallel(len(fcfgs), 8, func(i int) { builds[i] = e.RunPrebuild(fcfgs[i], BuildOpts{NoCache: true}) })
	nSteps, nSingle := 0, 0
	for i, b := range builds {
		if b.Err != nil {
			r.Fatal = b.Err.Error()
			return
		}
		evs, err := readEvents(b.Trace)
		if err != nil {
			r.Fatal = err.Error()
			return
		}
		for _, ev := range evs {
			if ev["ev"] != "directive" || (ev["name"] != "only" && ev["name"] != "exclude") {
				continue
			}
			nSteps++
			d := projectLines(str(ev["raw"]))
			if len(d) != 1 {
				continue
			}
			before, after := projectLines(str(ev["before"])), projectLines(str(ev["after"]))
			bb, _ := json.Marshal([]any{d, before, after, FamilyOf(fcfgs[i].Dist), fcfgs[i].Dist, fcfgs[i].ABI, fcfgs[i].Ver})
			k := sha(bb)
			if seen[k] {
				continue
			}
			seen[k] = true
			file := relBuildName(str(ev["file"]))
			recs = append(recs, map[string]any{"ev": "step", "id": fmt.Sprintf("%s|%s %s|%s", file, d[0].DK, strings.Join(d[0].FS, " "), fcfgs[i].Key()), "cfg": fcfgs[i], "d": d[0], "before": before, "after": after})
		}
		// the same files built on their own (--file): when such a build succeeds it must write what the whole build wrote
		if i == 0 || e.Tier == "thorough" {
			singles := filterHosts(e.Src)
			if e.Tier != "thorough" && len(singles) > 48 {
				rng := rand.New(rand.NewSource(e.Seed))
				rng.Shuffle(len(singles), func(a, b int) { singles[a], singles[b] = singles[b], singles[a] })
				keep := singles[:0:0]
				for k, sf := range singles {
					if k < 40 || sf.both {
						keep = append(keep, sf)
					}
				}
				singles = keep
			}
			type sres struct{ rec map[string]any }
			outs := make([]sres, len(singles))
			parallel(len(singles), 8, func(k int) {
				sf := singles[k]
				sb := e.RunPrebuild(fcfgs[i], BuildOpts{NoCache: true, Tag: fmt.Sprint("single", k), Extra: []string{"--file", filepath.Join("apparmor.d", sf.rel)}})
				defer sb.Drop()
				if sb.Err != nil {
					return // a single-file build that fails is not judged here
				}
				base := filepath.Base(sf.rel)
				for _, n := range []string{base, base + ".apparmor.d"} {
					at, err := os.ReadFile(filepath.Join(sb.Out, "apparmor.d", n))
					if err != nil {
						continue
					}
					wt, err := os.ReadFile(filepath.Join(b.Out, "apparmor.d", n))
					if err != nil {
						continue
					}
					outs[k] = sres{map[string]any{"ev": "single", "id": fmt.Sprintf("single|%s|%s", n, fcfgs[i].Key()), "whole": shaS(string(wt)), "alone": shaS(string(at)),
						"markers": strings.Count(string(at), "#aa:only") + strings.Count(string(at), "#aa:exclude")}}
				}
			})
			for _, o := range outs {
				if o.rec != nil {
					recs = append(recs, o.rec)
					nSingle++
				}
			}
		}
		b.Drop()
	}
	r.Coverage["single_file_builds_compared"] = nSingle
	r.Coverage["field_filter_applications"] = nSteps
	r.Coverage["field_configs"] = len(fcfgs)
	r.Coverage["trace_events"] = len(recs)
	r.Coverage["generated_events"] = nGen
	if nSteps == 0 {
		r.Fatal = "no only/exclude hook event seen in real builds (hooks missing?)"
		return
	}
	tp := filepath.Join(e.Scratch, "filter.ndjson")
	if err := writeNDJSON(tp, recs); err != nil {
		r.Fatal = err.Error()
		return
	}
	tr, err := e.RunTLC(TLCOpts{Module: "FilterTrace", Workers: 1, Timeout: 30 * time.Minute, Env: map[string]string{"VERIF_TRACE": tp}})
	if err != nil {
		r.Fatal = err.Error()
		return
	}
	r.AddTLC(tr)
	if !tr.Healthy() {
		r.Fatal = "FilterTrace did not complete: " + tr.Err + tail(tr.Out, 1500)
		return
	}
	r.Traces += len(recs)
	type rep struct {
		ID   string          `json:"id"`
		What string          `json:"what"`
		D    json.RawMessage `json:"d"`
	}
	info := 0
	for _, p := range tr.Prints {
		for _, tag := range []string{"VIOL", "DRIFT", "INFO"} {
			if !strings.HasPrefix(p, tag+" ") {
				continue
			}
			var x rep
			_ = json.Unmarshal([]byte(strings.TrimPrefix(p, tag+" ")), &x)
			switch tag {
			case "VIOL":
				parts := strings.Split(x.ID, "|")
				key := strings.Join(parts[:len(parts)-1], "|") // without the configuration
				r.Violate("C03|"+key+"|"+shortWhat(x.What), x.What+" ["+parts[len(parts)-1]+"]", map[string]any{"id": x.ID, "detail": x.D})
			case "DRIFT":
				if len(r.Drift) < 10 {
					r.Drift = append(r.Drift, x.ID+": "+x.What)
				}
			case "INFO":
				info++
			}
		}
	}
	r.Coverage["not_judged_unterminated_paragraphs"] = info
	if len(recs) > 0 {
		r.Sample(recs[0])
		r.Sample(recs[len(recs)-1])
	}
	sort.Strings(r.Drift)
}

func shortWhat(w string) string {
	f := strings.Fields(w)
	if len(f) > 4 {
		f = f[:4]
	}
	return strings.Join(f, "_")
}

func compactLines(ls []fLine) string {
	parts := []string{}
	for _, l := range ls {
		switch l.K {
		case "blank":
			parts = append(parts, "_")
		case "close":
			parts = append(parts, "}")
		case "bopen":
			parts = append(parts, l.Key+"{")
		case "line":
			parts = append(parts, fmt.Sprintf("%s@%d", l.Key, l.Ind))
		case "inl":
			parts = append(parts, fmt.Sprintf("%s@%d#%s:%s", l.Key, l.Ind, l.DK, strings.Join(l.FS, "+")))
		case "open":
			parts = append(parts, fmt.Sprintf("#%s:%s@%d", l.DK, strings.Join(l.FS, "+"), l.Ind))
		}
	}
	return strings.Join(parts, ",")
}

var reGenKey = regexp.MustCompile(`^/usr/bin/([a-z0-9]+) r,$`)

// unkey maps the concrete rule text of generated files back to the model's key.
func unkey(ls []fLine) []fLine {
	for i := range ls {
		if m := reGenKey.FindStringSubmatch(ls[i].Key); m != nil {
			ls[i].Key = m[1]
		}
	}
	return ls
}

type filterHost struct {
	rel  string // path below apparmor.d
	both bool   // also carries an exec / stack directive
}

// filterHosts: the shipped profile files that carry only / exclude directives.
func filterHosts(src string) []filterHost {
	res := []filterHost{}
	for _, pf := range profileFiles(src) {
		t, err := os.ReadFile(filepath.Join(src, "apparmor.d", pf))
		if err != nil {
			continue
		}
		ts := string(t)
		if strings.Contains(ts, "#aa:only") || strings.Contains(ts, "#aa:exclude") {
			res = append(res, filterHost{pf, strings.Contains(ts, "#aa:exec") || strings.Contains(ts, "#aa:stack")})
		}
	}
	return res
}
