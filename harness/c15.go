package main

// C15 (each event carries its own record's values) and C16 (rules generated from logs
// cover the logged access): MC_LogFields enumerates record shapes, the harness renders
// kernel log lines, runs the REAL logs.New / ParseToProfiles / Merge / Sort / Format and
// TLC (AaLogTrace) judges the results.

import (
	"encoding/hex"
	"encoding/json"
	"fmt"
	"math/rand"
	"os"
	"sort"
	"strconv"
	"strings"
	"time"

	"github.com/roddhjav/apparmor.d/pkg/logs"
)

func init() {
	checks["C15"] = checkC15
	checks["C16"] = checkC16
}

type fieldSpec struct {
	K string `json:"k"`
	C string `json:"c"`
}

// classValue gives the concrete value of a value class for a key (variant v).
func classValue(k, c string, v int) string {
	base := map[string]string{"name": "/vm/", "target": "/vt/", "comm": "", "info": "", "peer": "", "profile": "", "srcname": "/vs/"}[k]
	w := []string{"alpha", "beta"}[v%2]
	switch c {
	case "plain":
		return base + w
	case "space":
		return base + w + " two words"
	case "eq":
		return base + w + "=x=y"
	case "hash":
		return base + w + "#frag"
	case "comma":
		return base + w + ",more"
	case "utf8":
		return base + w + "-café-ü"
	case "hexlike":
		return "DEADBEEF" + []string{"", "00"}[v%2]
	case "kvinside":
		return base + w + " name=DEADBEEF comm=CAFE profile=ABCD"
	case "hexenc":
		return base + w + " needs hex"
	case "oddq":
		return base + w + `"quote`
	case "genpath":
		return []string{"/home/alice/.local/share/" + w + "/images/", "/run/user/1000/" + w + "/0123456789abcdef0123456789abcdef/old/"}[v%2]
	}
	return w
}

func renderField(k, c, val string) string {
	if c == "hexenc" || c == "oddq" {
		return k + "=" + strings.ToUpper(hex.EncodeToString([]byte(val)))
	}
	return k + `="` + val + `"`
}

type kv2 = [2]string

func renderRecord(n int, fields []fieldSpec, variant int) (line string, put []kv2) {
	put = []kv2{{"apparmor", "DENIED"}, {"operation", "open"}, {"class", "file"}}
	has := map[string]bool{}
	parts := []string{`apparmor="DENIED"`, `operation="open"`, `class="file"`}
	for _, f := range fields {
		has[f.K] = true
	}
	if !has["profile"] {
		parts = append(parts, fmt.Sprintf(`profile="prof%d"`, n))
		put = append(put, kv2{"profile", fmt.Sprintf("prof%d", n)})
	}
	for _, f := range fields {
		val := classValue(f.K, f.C, variant)
		parts = append(parts, renderField(f.K, f.C, val))
		put = append(put, kv2{f.K, val})
	}
	if !has["name"] {
		parts = append(parts, fmt.Sprintf(`name="/vm/own%d"`, n))
		put = append(put, kv2{"name", fmt.Sprintf("/vm/own%d", n)})
	}
	parts = append(parts, fmt.Sprintf("pid=%d", 3000+n))
	if !has["comm"] {
		parts = append(parts, fmt.Sprintf(`comm="cmd%d"`, n))
		put = append(put, kv2{"comm", fmt.Sprintf("cmd%d", n)})
	}
	parts = append(parts, `requested_mask="r"`, `denied_mask="r"`, "fsuid=1000", "ouid=1000")
	put = append(put, kv2{"requested_mask", "r"}, kv2{"denied_mask", "r"}, kv2{"fsuid", "1000"}, kv2{"ouid", "1000"})
	line = fmt.Sprintf("type=AVC msg=audit(17000%05d.%03d:%d): ", n, n, n) + strings.Join(parts, " ")
	return
}

func mapToPairs(m map[string]string) []kv2 {
	res := []kv2{}
	for k, v := range m {
		res = append(res, kv2{k, v})
	}
	sort.Slice(res, func(i, j int) bool { return res[i][0] < res[j][0] })
	return res
}

func shippedEnv(e *Env) (*aareEnv, error) {
	if err := e.BuildTools(); err != nil {
		return nil, err
	}
	if err := e.CopySource(); err != nil {
		return nil, err
	}
	b := e.RunPrebuild(Cfg{"arch", 3, "3.0", "none", false}, BuildOpts{NoCache: true})
	if b.Err != nil {
		return nil, b.Err
	}
	defer b.Drop()
	return loadTunables(e, b.Out)
}

func coveredKeys(env *aareEnv, put []kv2, got map[string]string) []string {
	res := []string{}
	for _, p := range put {
		k, want := p[0], p[1]
		if k != "profile" && k != "name" && k != "target" {
			continue
		}
		g, ok := got[k]
		if !ok || g == want {
			continue
		}
		if ok2, err := env.Covers(g, want); err == nil && ok2 {
			res = append(res, k)
		}
	}
	return res
}

func checkC15(e *Env, r *Report) {
	env, err := shippedEnv(e)
	if err != nil {
		r.Fatal = err.Error()
		return
	}
	flen := "2"
	if e.Tier == "thorough" {
		flen = "3"
	}
	res, err := e.RunTLC(TLCOpts{Module: "MC_LogFields", Workers: 8, Timeout: 20 * time.Minute, Env: map[string]string{"VERIF_FIELDS_LEN": flen}})
	if err != nil {
		r.Fatal = err.Error()
		return
	}
	r.AddTLC(res)
	if !res.Healthy() {
		r.Fatal = "MC_LogFields did not complete: " + res.Err
		return
	}
	shapes := [][]fieldSpec{}
	for _, p := range res.PrintsWithPrefix("BEHF") {
		var f []fieldSpec
		if err := json.Unmarshal([]byte(p), &f); err != nil {
			r.Fatal = "bad BEHF"
			return
		}
		shapes = append(shapes, f)
	}
	if len(shapes) == 0 {
		r.Fatal = "no field shapes emitted"
		return
	}
	r.Coverage["record_shapes"] = len(shapes)
	rng := rand.New(rand.NewSource(e.Seed))
	recs := []any{}
	nRuns := 0
	for si, sh := range shapes {
		if e.Tier != "thorough" && len(sh) > 2 && rng.Intn(3) != 0 {
			continue
		}
		// the generated record next to a plain neighbour, in both orders
		for order := 0; order < 2; order++ {
			lineA, putA := renderRecord(1, sh, si)
			lineB, putB := renderRecord(2, nil, si)
			text := lineA + "\n" + lineB + "\n"
			puts := [][]kv2{putA, putB}
			if order == 1 {
				text = lineB + "\n" + lineA + "\n"
				puts = [][]kv2{putB, putA}
			}
			var got logs.AppArmorLogs
			func() {
				defer func() {
					if p := recover(); p != nil {
						got = nil
						r.Violate("C15|crash|"+shapeKey(sh), fmt.Sprintf("logs.New panicked: %v", p), map[string]any{"log": text})
					}
				}()
				got = logs.New(strings.NewReader(text), "")
			}()
			nRuns++
			if got == nil {
				continue
			}
			if len(got) != 2 {
				r.Violate(fmt.Sprintf("C15|count|%s|order%d", shapeKey(sh), order), fmt.Sprintf("two records in, %d events out", len(got)), map[string]any{"log": text})
				continue
			}
			for i := 0; i < 2; i++ {
				which := "generated"
				if (order == 0) != (i == 0) {
					which = "neighbour"
				}
				recs = append(recs, map[string]any{"ev": "fields", "id": fmt.Sprintf("%s|%s|order%d", shapeKey(sh), which, order), "put": puts[i], "got": mapToPairs(got[i]),
					"covered": coveredKeys(env, puts[i], got[i]), "log": text})
			}
		}
	}
	r.Coverage["logs_new_runs"] = nRuns
	r.Sample(recs[0])
	r.Sample(recs[len(recs)-1])
	runAaLogTrace(e, r, recs, "C15")
	if r.Fatal == "" {
		lineModel(e, r, "C15")
	}
}

func shapeKey(sh []fieldSpec) string {
	parts := []string{}
	for _, f := range sh {
		parts = append(parts, f.K+":"+f.C)
	}
	return strings.Join(parts, ",")
}

// ---------------------------------------------------------------- C16

type ruleTuple struct {
	Cls       string `json:"cls"`
	Mask      string `json:"mask"`
	Verdict   string `json:"verdict"`
	Own       bool   `json:"own"`
	NameClass int    `json:"nameclass"`
}

// names per segment class of the generalisation list
var nameClasses = [][]string{
	{"/home/alice/.cache/app/data", "/home/j.doe-2/.cache/x"},
	{"/home/alice/.config/app/settings.ini"},
	{"/home/alice/.local/share/app/db"},
	{"/home/alice/.local/state/app", "/home/alice/.local/bin/tool", "/home/alice/.local/lib/x.so.1"},
	{"/home/alice/.ssh/known_hosts", "/home/alice/.gnupg/pubring.kbx"},
	{"/home/alice/Documents/report.pdf", "/home/bob/file"},
	{"/usr/lib/app/helper", "/usr/lib64/app/x", "/usr/libexec/app/y", "/usr/lib32/z"},
	{"/usr/bin/tool", "/usr/sbin/daemon", "/usr/bin/bash", "/usr/bin/dash"},
	{"/usr/lib/x86_64-linux-gnu/libfoo.so.1", "/usr/lib/i386-linux-gnu/bar"},
	{"/usr/etc/app.conf", "/etc/app/app.conf"},
	{"/var/run/app/app.pid", "/run/app/socket", "/run/user/1000/bus", "/run/user/1001/app/x"},
	{"/tmp/user/1000/file", "/tmp/app.ABCDEF"},
	{"/proc/1234/status", "/proc/1/cgroup", "/proc/1234/task/5678/comm", "/proc/sys/kernel/osrelease"},
	{"/sys/devices/pci0000:00/0000:00:02.0/drm/card0/uevent", "/sys/dev/block/8:16/uevent", "/sys/class/net/eth0/address"},
	{"/dev/shm/app-1000-shm", "/dev/dri/card0"},
	{"/var/lib/app/0123456789abcdef0123456789abcdef/data", "/var/cache/app/550e8400-e29b-41d4-a716-446655440000.idx"},
	{"/var/log/app/1234567890.log", "/var/log/app/12345678.log", "/var/log/app/123456.log"},
	{"/usr/lib/modules/6.5.0-14-generic/kernel/fs/x.ko", "/usr/lib/modules/6.1.0-13-amd64/modules.dep"},
	{"/usr/share/App/Data/File", "/opt/Vendor/App/Bin"},
	{"/run/udev/data/c226:0", "/run/udev/data/b8:16", "/run/udev/data/+usb:1-1:1.0"},
	{"/srv/www/index.html", "/srv/data/8:16/x"},
	{"/media/alice/USB DISK/file.txt", "/mnt/backup/file"},
	{"/var/lib/app/cache-1000/x", "/etc/group.1000", "/boot/vmlinuz-6.5.0-14-generic"},
	{"/home/alice/.mozilla/firefox/abcd1234.default/prefs.js", "/run/user/1000/at-spi/bus_0"},
	// other architectures than the ones @{arch} / @{multiarch} list, versions, locales, device numbers
	{"/opt/jdk-21-aarch64/lib/libjvm.so", "/usr/lib/jvm/java-17-openjdk-arm64/bin/java", "/usr/bin/qemu-system-aarch64", "/usr/lib/aarch64-linux-gnu/libc.so.6"},
	{"/usr/lib/riscv64-linux-gnu/libm.so.6", "/opt/app/ppc64le/bin/tool", "/usr/lib/arm-linux-gnueabihf/libz.so.1", "/opt/x86/app", "/opt/app-amd64.d/conf"},
	{"/usr/lib/python3.11/site-packages/x.py", "/usr/share/app/en_US.UTF-8/msg", "/var/lib/app/v1.2.3/db", "/dev/pts/3", "/dev/tty1", "/dev/nvme0n1p2"},
	// bytes outside ASCII (the kernel writes such names hex-encoded)
	{"/home/alice/T\u00e9l\u00e9chargements/rapport.pdf", "/srv/\u6587\u4ef6/\u8d44\u6599.txt", "/opt/app/na\u00efve caf\u00e9/x"},
}

func renderRuleRecord(t ruleTuple, n int, variant int) (line string, want map[string]any, name string) {
	names := nameClasses[(t.NameClass-1)%len(nameClasses)]
	name = names[variant%len(names)]
	prof := "gen" + lettersOf(n) // no digits: the generalisation list rewrites 1000, 6+ digit runs ...
	ouid := "1000"
	if !t.Own {
		ouid = "0"
	}
	qual := ""
	if t.Verdict == "AUDIT" {
		qual = "audit"
	}
	head := fmt.Sprintf(`type=AVC msg=audit(17000%05d.%03d:%d): apparmor="%s" `, n, n%1000, n, t.Verdict)
	q := func(s string) string {
		for i := 0; i < len(s); i++ {
			if s[i] >= 0x7f { // what the kernel does with a value holding such a byte
				return strings.ToUpper(hex.EncodeToString([]byte(s)))
			}
		}
		return `"` + s + `"`
	}
	pidcomm := fmt.Sprintf(` pid=%d comm="cmd"`, 4000+n)
	parts := strings.SplitN(t.Cls, ":", 2)
	want = map[string]any{"kind": "", "qual": qual, "mask": []string{}, "ownereligible": false, "tokens": []string{}, "name": name, "profile": prof}
	switch parts[0] {
	case "file":
		op := parts[1]
		mask := t.Mask
		target := ""
		switch op {
		case "exec":
			mask = "x"
		case "link":
			mask = "l"
			target = ` target="/vt/linktarget"`
		case "open", "chmod", "mknod", "unlink", "rename_src", "truncate", "file_inherit":
			mask = strings.ReplaceAll(mask, "l", "r") // the kernel only requests l for link operations
		case "file_mmap":
			if !strings.Contains(mask, "m") {
				mask = "rm"
			}
		}
		denied := mask
		if t.Verdict == "DENIED" && len(mask) > 1 && variant%2 == 1 {
			denied = mask[len(mask)-1:] // only part of what was requested was refused: the rule must still cover the request
		}
		line = head + fmt.Sprintf(`operation=%s class="file" profile=%s name=%s%s%s requested_mask=%s denied_mask=%s fsuid=1000 ouid=%s`, q(op), q(prof), q(name), target, pidcomm, q(mask), q(denied), ouid)
		want["kind"] = "file"
		if mask == "l" {
			want["kind"] = "link"
		}
		ml := []string{}
		for _, c := range mask {
			ml = append(ml, string(c))
		}
		want["mask"] = ml
		want["ownereligible"] = t.Own
	case "cap":
		line = head + fmt.Sprintf(`operation="capable" class="cap" profile=%s%s capability=12 capname="net_admin"`, q(prof), pidcomm)
		want["kind"] = "capability"
		want["tokens"] = []string{"net_admin"}
	case "net":
		if parts[1] == "unix" {
			line = head + fmt.Sprintf(`operation="connect" class="net" profile=%s%s family="unix" sock_type="stream" protocol=0 requested_mask="send receive" denied_mask="send receive" addr=none peer_addr="@/tmp/dbus-x" peer="peerlabel"`, q(prof), pidcomm)
			want["kind"] = "unix"
			want["tokens"] = []string{"stream", "peerlabel"}
		} else {
			line = head + fmt.Sprintf(`operation="create" class="net" profile=%s%s family="inet" sock_type="dgram" protocol=17 requested_mask="create" denied_mask="create"`, q(prof), pidcomm)
			want["kind"] = "network"
			want["tokens"] = []string{"inet", "dgram"}
		}
	case "signal":
		line = head + fmt.Sprintf(`operation="signal" class="signal" profile=%s%s requested_mask="send" denied_mask="send" signal=term peer="peerlabel"`, q(prof), pidcomm)
		want["kind"] = "signal"
		want["tokens"] = []string{"send", "term", "peerlabel"}
	case "ptrace":
		line = head + fmt.Sprintf(`operation="ptrace" class="ptrace" profile=%s%s requested_mask="read" denied_mask="read" peer="peerlabel"`, q(prof), pidcomm)
		want["kind"] = "ptrace"
		want["tokens"] = []string{"read", "peerlabel"}
	case "dbus":
		line = head + fmt.Sprintf(`operation="dbus_method_call" bus="session" path="/org/vgen/Obj" interface="org.vgen.Iface" member="DoIt" mask="send" name="org.vgen.Svc" pid=%d label=%s peer_pid=77 peer_label="peerlabel"`, 4000+n, q(prof))
		want["kind"] = "dbus"
		want["tokens"] = []string{"send", "session", "/org/vgen/Obj", "org.vgen.Iface", "DoIt", "peerlabel"}
	case "mount":
		line = head + fmt.Sprintf(`operation="mount" class="mount" info="failed perms check" error=-13 profile=%s name="/mnt/point/"%s fstype="ext4" srcname="/dev/sdb1" flags="rw, nosuid"`, q(prof), pidcomm)
		want["kind"] = "mount"
		want["tokens"] = []string{"ext4", "/dev/sdb1", "/mnt/point/", "nosuid"}
	case "umount":
		line = head + fmt.Sprintf(`operation="umount" class="mount" profile=%s name="/mnt/point/"%s`, q(prof), pidcomm)
		want["kind"] = "umount"
		want["tokens"] = []string{"/mnt/point/"}
	case "remount":
		line = head + fmt.Sprintf(`operation="mount" class="mount" info="failed flags match" error=-13 profile=%s name="/mnt/point/"%s flags="ro, remount, bind"`, q(prof), pidcomm)
		want["kind"] = "remount"
		want["tokens"] = []string{"/mnt/point/", "bind"}
	case "pivotroot":
		line = head + fmt.Sprintf(`operation="pivotroot" class="mount" profile=%s name="/newroot/"%s srcname="/newroot/old/"`, q(prof), pidcomm)
		want["kind"] = "pivot_root"
		want["tokens"] = []string{"/newroot/"}
	case "mqueue":
		line = head + fmt.Sprintf(`operation="open" class="posix_mqueue" profile=%s name="/vgenqueue"%s requested="read create" denied="read create" label="objlabel" fsuid=1000 ouid=1000`, q(prof), pidcomm)
		want["kind"] = "mqueue"
		want["tokens"] = []string{"/vgenqueue", "objlabel"}
	case "io_uring":
		line = head + fmt.Sprintf(`operation="uring_sqpoll" class="io_uring" profile=%s%s requested="sqpoll" denied="sqpoll" label="objlabel"`, q(prof), pidcomm)
		want["kind"] = "io_uring"
		want["tokens"] = []string{"sqpoll", "objlabel"}
	case "userns":
		line = head + fmt.Sprintf(`operation="userns_create" class="namespace" info="Userns create restricted - failed to find unprivileged_userns profile" error=-13 profile=%s%s requested="userns_create" denied="userns_create" target="unprivileged_userns"`, q(prof), pidcomm)
		want["kind"] = "userns"
	case "rlimits":
		line = head + fmt.Sprintf(`operation="setrlimit" class="rlimits" profile=%s%s rlimit=nofile value=1024`, q(prof), pidcomm)
		want["kind"] = "rlimit"
		want["qual"] = "" // rlimit rules have no qualifier in the policy language
		want["tokens"] = []string{"nofile", "1024"}
	case "change_onexec":
		line = head + fmt.Sprintf(`operation="change_onexec" class="file" info="label not found" error=-2 profile=%s name="tgtprofile"%s target="tgtprofile"`, q(prof), pidcomm)
		want["kind"] = "change_profile"
		want["tokens"] = []string{"tgtprofile"}
	}
	return
}

// ruleTokens: the words of a rule text, with list punctuation removed.
func ruleTokens(raw string) []string {
	s := strings.NewReplacer("(", " ", ")", " ", ",", " ", "=", " ", "\"", " ").Replace(raw)
	return asciiToks(strings.Fields(s))
}

// asciiToks writes the non-ASCII characters of a token as \uXXXX escapes: the trace is read by TLC in the
// platform's character set, in which two different non-ASCII letters may become the same replacement character
func asciiToks(ts []string) []string {
	out := make([]string, len(ts))
	for i, t := range ts {
		q := strconv.QuoteToASCII(t)
		out[i] = q[1 : len(q)-1]
	}
	return out
}

func checkC16(e *Env, r *Report) {
	env, err := shippedEnv(e)
	if err != nil {
		r.Fatal = err.Error()
		return
	}
	res, err := e.RunTLC(TLCOpts{Module: "MC_LogFields", Workers: 8, Timeout: 20 * time.Minute, Env: map[string]string{"VERIF_FIELDS_LEN": "1", "VERIF_HIST_LEN": map[bool]string{false: "3", true: "4"}[e.Tier == "thorough"]}})
	if err != nil {
		r.Fatal = err.Error()
		return
	}
	r.AddTLC(res)
	if !res.Healthy() {
		r.Fatal = "MC_LogFields did not complete: " + res.Err
		return
	}
	tuples := []ruleTuple{}
	for _, p := range res.PrintsWithPrefix("BEHR") {
		var t ruleTuple
		if err := json.Unmarshal([]byte(p), &t); err != nil {
			r.Fatal = "bad BEHR"
			return
		}
		tuples = append(tuples, t)
	}
	if len(tuples) == 0 {
		r.Fatal = "no rule tuples emitted"
		return
	}
	r.Coverage["model_tuples"] = len(tuples)
	rng := rand.New(rand.NewSource(e.Seed))
	rng.Shuffle(len(tuples), func(i, j int) { tuples[i], tuples[j] = tuples[j], tuples[i] })
	// de-duplicate tuples that render identically (non-file classes ignore mask / name class)
	nWant := 2500
	if e.Tier == "thorough" {
		nWant = 50000
	}
	recs := []any{}
	seenLine := map[string]bool{}
	batch := []string{}
	type pending struct {
		want map[string]any
		name string
		t    ruleTuple
		hist string
	}
	pend := []pending{}
	flush := func() {
		if len(batch) == 0 {
			return
		}
		text := strings.Join(batch, "\n") + "\n"
		var profiles map[string][]Item
		func() {
			defer func() {
				if p := recover(); p != nil {
					r.Violate("C16|crash|"+shaS(text), fmt.Sprintf("log to rules conversion panicked: %v", p), map[string]any{"log": text})
					profiles = nil
				}
			}()
			aaLogs := logs.New(strings.NewReader(text), "")
			profs := aaLogs.ParseToProfiles()
			profiles = map[string][]Item{}
			for name, p := range profs {
				p.Merge(nil)
				p.Sort()
				p.Format()
				profiles[name] = Scan(p.String())
			}
		}()
		for _, pd := range pend {
			prof := str(pd.want["profile"])
			rules := []any{}
			if profiles != nil {
				for _, it := range profiles[prof] {
					x := it
					if x.T != "rule" && x.T != "exec" && x.T != "a4" {
						continue
					}
					kind := x.Kind
					if kind == "" {
						kind = "other"
					}
					if kind == "set" {
						kind = "rlimit"
					}
					q := ""
					for _, qq := range x.Quals {
						if qq == "audit" || qq == "deny" {
							q = strings.TrimSpace(q + " " + qq)
						}
					}
					acc := []string{}
					covers := false
					if kind == "file" || kind == "link" {
						a, m := SplitPerm(x.Perms)
						for _, c := range a {
							acc = append(acc, string(c))
						}
						if m != "" {
							acc = append(acc, m)
						}
						path := x.Path
						if kind == "link" && strings.HasPrefix(path, "link ") {
							path = strings.TrimPrefix(path, "link ")
						}
						if kind == "link" {
							path = strings.TrimSpace(strings.Split(x.Path, " -> ")[0])
						}
						ok, err := env.Covers(path, pd.name)
						covers = err == nil && ok
					}
					rules = append(rules, map[string]any{"kind": kind, "qual": q, "access": acc, "owner": x.Owner, "covers": covers, "tokens": ruleTokens(x.Raw), "raw": strings.TrimSpace(x.Raw)})
				}
			}
			id := fmt.Sprintf("%s|%s|%s|own=%v|%s", pd.t.Cls, pd.t.Mask, pd.t.Verdict, pd.t.Own, pd.name)
			if str(pd.want["kind"]) != "file" && str(pd.want["kind"]) != "link" {
				id = fmt.Sprintf("%s|%s", pd.t.Cls, pd.t.Verdict)
			}
			if pd.hist != "" {
				id = pd.hist + "|" + pd.t.Mask + "|" + pd.name
			}
			if ts, isList := pd.want["tokens"].([]string); isList {
				pd.want["tokens"] = asciiToks(ts)
			}
			recs = append(recs, map[string]any{"ev": "cover", "id": id, "want": pd.want, "rules": rules})
		}
		batch, pend = nil, nil
	}
	// histories: several records of one profile (a rule built from one record must not be altered
	// by the merging of another record into a rule that shares storage with it)
	hists := res.PrintsWithPrefix("BEHH")
	if e.Tier != "thorough" && len(hists) > 1500 {
		rng.Shuffle(len(hists), func(i, j int) { hists[i], hists[j] = hists[j], hists[i] })
		hists = hists[:1500]
	}
	nHist := 0
	for hi, h := range hists {
		var seq []struct {
			P    int    `json:"p"`
			Mask string `json:"mask"`
			Own  bool   `json:"own"`
		}
		if err := json.Unmarshal([]byte(h), &seq); err != nil {
			r.Fatal = "bad BEHH"
			return
		}
		for _, it := range seq {
			t := ruleTuple{Cls: "file:open", Mask: it.Mask, Verdict: "ALLOWED", Own: it.Own, NameClass: 6}
			line, want, name := renderRuleRecord(t, 100000+hi, it.P)
			batch = append(batch, line)
			pend = append(pend, pending{want: want, name: name, t: t})
		}
		for i := range pend {
			pend[i].hist = fmt.Sprintf("hist:%s", h)
		}
		flush()
		nHist++
	}
	r.Coverage["record_histories"] = nHist
	// signal histories
	nSig := 0
	for hi, h := range res.PrintsWithPrefix("BEHS") {
		var seq []struct {
			Acc string `json:"acc"`
			Sig string `json:"sig"`
		}
		if err := json.Unmarshal([]byte(h), &seq); err != nil {
			r.Fatal = "bad BEHS"
			return
		}
		prof := "sig" + lettersOf(hi+1)
		for k, it := range seq {
			line := fmt.Sprintf(`type=AVC msg=audit(17100%05d.%03d:%d): apparmor="ALLOWED" operation="signal" class="signal" profile="%s" pid=%d comm="cmd" requested_mask="%s" denied_mask="%s" signal=%s peer="peerlabel"`,
				hi, k, hi*10+k, prof, 5000+hi, it.Acc, it.Acc, it.Sig)
			want := map[string]any{"kind": "signal", "qual": "", "mask": []string{}, "ownereligible": false, "tokens": []string{it.Acc, it.Sig, "peerlabel"}, "name": "", "profile": prof}
			batch = append(batch, line)
			pend = append(pend, pending{want: want, name: "", t: ruleTuple{Cls: "signal", Mask: it.Acc + "/" + it.Sig, Verdict: "ALLOWED"}, hist: "sighist:" + h})
		}
		flush()
		nSig++
	}
	r.Coverage["signal_histories"] = nSig
	// access histories of the other kinds (BEHA): one profile, one object, different accesses
	accNames := map[string][]string{"unix": {"send receive", "connect", "bind"}, "ptrace": {"read", "trace", "readby"}, "mqueue": {"read", "write", "create"},
		"io_uring": {"sqpoll", "override_creds", "sqpoll"}, "dbus": {"send", "receive", "send"}}
	nAcc := 0
	for hi, h := range res.PrintsWithPrefix("BEHA") {
		var seq []struct {
			Kind string `json:"kind"`
			A    int    `json:"a"`
		}
		if err := json.Unmarshal([]byte(h), &seq); err != nil {
			r.Fatal = "bad BEHA"
			return
		}
		prof := "acc" + lettersOf(hi+1)
		for k, it := range seq {
			acc := accNames[it.Kind][(it.A-1)%3]
			head := fmt.Sprintf(`type=AVC msg=audit(17300%05d.%03d:%d): apparmor="ALLOWED" `, hi, k, hi*10+k)
			pidcomm := fmt.Sprintf(` pid=%d comm="cmd"`, 7000+hi)
			line, kind := "", it.Kind
			toks := strings.Fields(acc)
			switch it.Kind {
			case "unix":
				line = head + fmt.Sprintf(`operation="connect" class="net" profile="%s"%s family="unix" sock_type="stream" protocol=0 requested_mask="%s" denied_mask="%s" addr=none peer_addr="@/tmp/dbus-x" peer="peerlabel"`, prof, pidcomm, acc, acc)
				toks = append(toks, "stream", "peerlabel")
			case "ptrace":
				line = head + fmt.Sprintf(`operation="ptrace" class="ptrace" profile="%s"%s requested_mask="%s" denied_mask="%s" peer="peerlabel"`, prof, pidcomm, acc, acc)
				toks = append(toks, "peerlabel")
			case "mqueue":
				line = head + fmt.Sprintf(`operation="open" class="posix_mqueue" profile="%s" name="/vgenqueue"%s requested="%s" denied="%s" label="objlabel" fsuid=1000 ouid=1000`, prof, pidcomm, acc, acc)
				toks = append(toks, "/vgenqueue")
			case "io_uring":
				line = head + fmt.Sprintf(`operation="uring_%s" class="io_uring" profile="%s"%s requested="%s" denied="%s" label="objlabel"`, acc, prof, pidcomm, acc, acc)
				toks = append(toks, "objlabel")
			case "dbus":
				line = head + fmt.Sprintf(`operation="dbus_method_call" bus="session" path="/org/vgen/Obj" interface="org.vgen.Iface" member="DoIt" mask="%s" name="org.vgen.Svc" pid=%d label="%s" peer_pid=77 peer_label="peerlabel"`, acc, 7000+hi, prof)
				toks = append(toks, "session", "/org/vgen/Obj", "DoIt")
			}
			want := map[string]any{"kind": kind, "qual": "", "mask": []string{}, "ownereligible": false, "tokens": toks, "name": "", "profile": prof}
			batch = append(batch, line)
			pend = append(pend, pending{want: want, name: "", t: ruleTuple{Cls: it.Kind, Mask: acc, Verdict: "ALLOWED"}, hist: "acchist:" + h})
		}
		flush()
		nAcc++
	}
	r.Coverage["access_histories"] = nAcc
	// neighbours: two adjacent records of one profile that differ in one field a rule is built from - both values
	// must come out (a "repeat" is a record identical up to timestamp and pid, nothing less)
	{
		type nb struct {
			kind, tmpl string
			a, b       string
			toks       []string
		}
		nbs := []nb{
			{"unix", `operation="bind" class="net" profile="%[1]s" pid=%[2]d comm="cmd" family="unix" sock_type="stream" protocol=0 requested_mask="bind" denied_mask="bind" addr="%[3]s"`, "@/tmp/.X11-unix/X0", "@/tmp/.X11-unix/X1", []string{"bind", "stream"}},
			{"unix", `operation="connect" class="net" profile="%[1]s" pid=%[2]d comm="cmd" family="unix" sock_type="stream" protocol=0 requested_mask="send receive" denied_mask="send receive" addr=none peer_addr="%[3]s" peer="peerlabel"`, "@/tmp/peer-a", "@/tmp/peer-b", []string{"send", "peerlabel"}},
			{"signal", `operation="signal" class="signal" profile="%[1]s" pid=%[2]d comm="cmd" requested_mask="send" denied_mask="send" signal=term peer="%[3]s"`, "peer-one", "peer-two", []string{"send", "term"}},
			{"ptrace", `operation="ptrace" class="ptrace" profile="%[1]s" pid=%[2]d comm="cmd" requested_mask="read" denied_mask="read" peer="%[3]s"`, "peer-one", "peer-two", []string{"read"}},
			{"dbus", `operation="dbus_method_call" bus="session" path="/org/vgen/Obj" interface="org.vgen.Iface" member="%[3]s" mask="send" name="org.vgen.Svc" pid=%[2]d label="%[1]s" peer_pid=77 peer_label="peerlabel"`, "DoIt", "DoOther", []string{"send", "session"}},
			{"dbus", `operation="dbus_method_call" bus="session" path="%[3]s" interface="org.vgen.Iface" member="DoIt" mask="send" name="org.vgen.Svc" pid=%[2]d label="%[1]s" peer_pid=77 peer_label="peerlabel"`, "/org/vgen/ObjA", "/org/vgen/ObjB", []string{"send", "DoIt"}},
			{"mount", `operation="mount" class="mount" info="failed perms check" error=-13 profile="%[1]s" name="/mnt/point/" pid=%[2]d comm="cmd" fstype="ext4" srcname="%[3]s" flags="rw, nosuid"`, "/dev/sda1", "/dev/sdb1", []string{"ext4", "/mnt/point/"}},
			{"capability", `operation="capable" class="cap" profile="%[1]s" pid=%[2]d comm="cmd" capability=12 capname="%[3]s"`, "net_admin", "sys_admin", []string{}},
			{"network", `operation="create" class="net" profile="%[1]s" pid=%[2]d comm="cmd" family="%[3]s" sock_type="dgram" protocol=17 requested_mask="create" denied_mask="create"`, "inet", "inet6", []string{"dgram"}},
		}
		// values of equal length that differ only in bytes the rule order gives no weight to (non-ASCII letters):
		// "compare equal" may not be taken for "identical" when duplicates are removed
		nbs = append(nbs,
			nb{"signal", nbs[2].tmpl, "peer-caf\u00e9", "peer-caf\u00e8", []string{"send", "term"}},
			nb{"unix", nbs[0].tmpl, "@/tmp/\u6587\u4ef6/a", "@/tmp/\u6587\u4ef7/a", []string{"bind", "stream"}},
			nb{"mount", nbs[6].tmpl, "/dev/disk/by-label/\u00fcber", "/dev/disk/by-label/\u00f6ber", []string{"ext4", "/mnt/point/"}},
			nb{"dbus", nbs[4].tmpl, "Do\u00e9", "Do\u00e8", []string{"send", "session"}},
		)
		for ni, x := range nbs {
			for order := 0; order < 2; order++ {
				prof := "nb" + lettersOf(ni*2+order+1)
				vals := []string{x.a, x.b}
				if order == 1 {
					vals = []string{x.b, x.a, x.b}
				}
				for k, v := range vals {
					line := fmt.Sprintf(`type=AVC msg=audit(17400%05d.%03d:%d): apparmor="ALLOWED" `, ni, k, ni*10+k) + fmt.Sprintf(x.tmpl, prof, 8000+ni*10+k, v)
					want := map[string]any{"kind": x.kind, "qual": "", "mask": []string{}, "ownereligible": false, "tokens": append(append([]string{}, x.toks...), v), "name": "", "profile": prof}
					batch = append(batch, line)
					pend = append(pend, pending{want: want, name: "", t: ruleTuple{Cls: x.kind, Mask: v, Verdict: "ALLOWED"}, hist: fmt.Sprintf("neighbours:%s:%d:%d", x.kind, ni, order)})
				}
				flush()
			}
		}
	}
	// rlimit histories: several limits of one resource for one profile (values of different lengths)
	for hi, vals := range [][]string{{"524288", "8192", "1048576"}, {"8192", "1048576"}, {"70", "9", "100"}, {"infinity", "1024"}} {
		prof := "rlim" + lettersOf(hi+1)
		for k, v := range vals {
			line := fmt.Sprintf(`type=AVC msg=audit(17200%05d.%03d:%d): apparmor="ALLOWED" operation="setrlimit" class="rlimits" profile="%s" pid=%d comm="cmd" rlimit=nofile value=%s`, hi, k, hi*10+k, prof, 6000+hi, v)
			want := map[string]any{"kind": "rlimit", "qual": "", "mask": []string{}, "ownereligible": false, "tokens": []string{"nofile", v}, "name": "", "profile": prof}
			batch = append(batch, line)
			pend = append(pend, pending{want: want, name: "", t: ruleTuple{Cls: "rlimits", Mask: v, Verdict: "ALLOWED"}, hist: fmt.Sprintf("rlimhist:%v", vals)})
		}
		flush()
	}
	nWant += len(recs)
	n := 0
	for _, t := range tuples {
		if len(recs)+len(pend) >= nWant {
			break
		}
		n++
		line, want, name := renderRuleRecord(t, n, n)
		key := line[strings.Index(line, "apparmor="):]
		key = strings.ReplaceAll(key, "gen"+lettersOf(n), "genN")
		key = strings.ReplaceAll(key, fmt.Sprintf("pid=%d", 4000+n), "pid=N")
		if seenLine[key] {
			continue
		}
		seenLine[key] = true
		batch = append(batch, line)
		pend = append(pend, pending{want: want, name: name, t: t})
		if len(batch) >= 40 {
			flush()
		}
	}
	flush()
	r.Coverage["records"] = len(recs)
	if len(recs) == 0 {
		r.Fatal = "no record generated"
		return
	}
	r.Sample(recs[0])
	r.Sample(recs[len(recs)/2])
	_ = os.Getenv
	runAaLogTrace(e, r, recs, "C16")
}

func lettersOf(n int) string {
	s := ""
	for {
		s = string(rune('g'+n%20)) + s
		n /= 20
		if n == 0 {
			return s
		}
	}
}
