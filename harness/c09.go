package main

// C09 (rule text round-trips through printer and parser) and C12 (printed text means the
// same to the reference AppArmor parser): RuleText.tla / MC_RuleText / RuleTextTrace.tla.
// TLC enumerates the rule space (one choice per field of every rule kind); the harness
// builds the real struct by reflection, prints it with the real templates, parses it back
// with the real parser, and shows it to apparmor_parser.

import (
	"encoding/json"
	"fmt"
	"math/rand"
	"os"
	"os/exec"
	"path/filepath"
	"reflect"
	"regexp"
	"sort"
	"strings"
	"sync"
	"time"

	"github.com/roddhjav/apparmor.d/pkg/aa"
	"github.com/roddhjav/apparmor.d/pkg/logs"
)

func init() {
	checks["C09"] = checkC09
	checks["C12"] = checkC12
}

type fieldChoices struct {
	Field   string
	Choices []any // choice 0 is "absent / default"
}

type kindSchema struct {
	Kind   string
	New    func() aa.Rule
	Fields []fieldChoices
	AA3    bool // expressible in AppArmor 3 (C12)
}

var qualChoices = []any{aa.Qualifier{}, aa.Qualifier{Audit: true}, aa.Qualifier{AccessType: "deny"}, aa.Qualifier{Audit: true, AccessType: "deny"}}
var commentChoices = []any{"", " a note", ` 3.5" floppy`, ` has "two" quotes, a comma and a { brace`}

func s(xs ...string) []string { return xs }

var ruleSchemas = []kindSchema{
	{"file", func() aa.Rule { return &aa.File{} }, []fieldChoices{
		{"Qualifier", qualChoices}, {"Owner", []any{false, true}},
		{"Path", []any{"/etc/app/conf", "@{HOME}/.config/{a,b}/**", `"/path with blank/x"`, "/usr/lib/@{multiarch}/lib*.so{,.[0-9]*}", "/srv/mes\u00a0docs/**", "/srv/wide\u3000blank/x", `/media/alice/USB\ DISK/My Documents/**`}},
		{"Access", []any{s("r"), s("r", "w"), s("m", "r", "ix"), s("Px"), s("r", "w", "l", "k")}},
		{"Target", []any{"", "tgtprofile"}}, {"Comment", commentChoices}, {"FileInherit", []any{false, true}}, {"NoNewPrivs", []any{false, true}}, {"Optional", []any{false, true}}}, true},
	{"link", func() aa.Rule { return &aa.Link{} }, []fieldChoices{
		{"Qualifier", qualChoices}, {"Owner", []any{false, true}}, {"Subset", []any{false, true}},
		{"Path", []any{"/etc/a", "@{run}/x/{a,b}"}}, {"Target", []any{"/etc/b", "@{HOME}/**"}}, {"Comment", commentChoices}}, true},
	{"capability", func() aa.Rule { return &aa.Capability{} }, []fieldChoices{
		{"Qualifier", qualChoices}, {"Names", []any{s(), s("chown"), s("chown", "kill", "sys_admin")}}, {"Comment", commentChoices}}, true},
	{"network", func() aa.Rule { return &aa.Network{} }, []fieldChoices{
		{"Qualifier", qualChoices}, {"Domain", []any{"", "inet", "inet6", "netlink", "packet"}}, {"Type", []any{"", "stream", "dgram", "raw"}}, {"Protocol", []any{"", "tcp"}}, {"Comment", commentChoices}}, true},
	{"mount", func() aa.Rule { return &aa.Mount{} }, []fieldChoices{
		{"Qualifier", qualChoices}, {"FsType", []any{"", "ext4"}}, {"Options", []any{s(), s("ro"), s("rw", "nosuid")}},
		{"Source", []any{"", "/dev/sda1", "@{run}/src/"}}, {"MountPoint", []any{"", "/mnt/a/", "@{HOME}/mnt/"}}, {"Comment", commentChoices}}, true},
	{"umount", func() aa.Rule { return &aa.Umount{} }, []fieldChoices{
		{"Qualifier", qualChoices}, {"FsType", []any{"", "ext4"}}, {"Options", []any{s(), s("ro")}}, {"MountPoint", []any{"", "/mnt/a/"}}, {"Comment", commentChoices}}, true},
	{"remount", func() aa.Rule { return &aa.Remount{} }, []fieldChoices{
		{"Qualifier", qualChoices}, {"FsType", []any{"", "ext4"}}, {"Options", []any{s(), s("ro"), s("ro", "bind")}}, {"MountPoint", []any{"", "/mnt/a/"}}, {"Comment", commentChoices}}, true},
	{"pivot_root", func() aa.Rule { return &aa.PivotRoot{} }, []fieldChoices{
		{"Qualifier", qualChoices}, {"OldRoot", []any{"", "/mnt/old/"}}, {"NewRoot", []any{"", "/mnt/new/"}}, {"TargetProfile", []any{"", "tgtprofile"}}, {"Comment", commentChoices}}, true},
	{"change_profile", func() aa.Rule { return &aa.ChangeProfile{} }, []fieldChoices{
		{"Qualifier", qualChoices}, {"ExecMode", []any{"", "safe", "unsafe"}}, {"Exec", []any{"", "/bin/x"}}, {"ProfileName", []any{"", "tgtprofile", "a//b"}}, {"Comment", commentChoices}}, true},
	{"signal", func() aa.Rule { return &aa.Signal{} }, []fieldChoices{
		{"Qualifier", qualChoices}, {"Access", []any{s(), s("send"), s("send", "receive")}}, {"Set", []any{s(), s("hup"), s("hup", "int", "term"), s("rtmin+0"), s("rtmin+32"), s("exists", "rtmin+31")}},
		{"Peer", []any{"", "peerprof", "a//&b", "@{p_systemd}"}}, {"Comment", commentChoices}}, true},
	{"ptrace", func() aa.Rule { return &aa.Ptrace{} }, []fieldChoices{
		{"Qualifier", qualChoices}, {"Access", []any{s(), s("read"), s("read", "trace"), s("readby", "tracedby")}}, {"Peer", []any{"", "peerprof", "a//&b"}}, {"Comment", commentChoices}}, true},
	{"unix", func() aa.Rule { return &aa.Unix{} }, []fieldChoices{
		{"Qualifier", qualChoices}, {"Access", []any{s(), s("send"), s("send", "receive"), s("bind", "listen")}}, {"Type", []any{"", "stream", "dgram"}},
		{"Protocol", []any{"", "0"}}, {"Address", []any{"", "@/tmp/sock", "none"}}, {"Label", []any{"", "mylabel"}}, {"Attr", []any{"", "a"}}, {"Opt", []any{"", "o"}},
		{"PeerLabel", []any{"", "peerlabel"}}, {"PeerAddr", []any{"", "@/tmp/peer"}}, {"Comment", commentChoices}}, true},
	{"dbus", func() aa.Rule { return &aa.Dbus{} }, []fieldChoices{
		{"Qualifier", qualChoices}, {"Access", []any{s(), s("send"), s("receive"), s("send", "receive"), s("bind")}}, {"Bus", []any{"", "session", "system"}},
		{"Name", []any{"", "org.vgen.Svc"}}, {"Path", []any{"", "/org/vgen/Obj{,/**}"}}, {"Interface", []any{"", "org.vgen.Iface{,.*}"}}, {"Member", []any{"", "{Get,Set}"}},
		{"PeerName", []any{"", ":1.42", `"{@{busname},org.vgen.Svc}"`, "org.vgen.Svc"}}, {"PeerLabel", []any{"", "peerlabel", `"@{p_dbus}"`}}, {"Comment", commentChoices}}, true},
	{"rlimit", func() aa.Rule { return &aa.Rlimit{} }, []fieldChoices{
		{"Key", []any{"nofile", "nproc", "cpu"}}, {"Op", []any{"<="}}, {"Value", []any{"10", "1024", "infinity"}}, {"Comment", commentChoices}}, true},
	{"mqueue", func() aa.Rule { return &aa.Mqueue{} }, []fieldChoices{
		{"Qualifier", qualChoices}, {"Access", []any{s(), s("r"), s("r", "w"), s("create", "open", "delete")}}, {"Type", []any{"", "posix", "sysv"}}, {"Label", []any{"", "mylabel"}}, {"Name", []any{"", "/queue", "123"}}, {"Comment", commentChoices}}, false},
	{"io_uring", func() aa.Rule { return &aa.IOUring{} }, []fieldChoices{
		{"Qualifier", qualChoices}, {"Access", []any{s(), s("sqpoll"), s("sqpoll", "override_creds")}}, {"Label", []any{"", "mylabel"}}, {"Comment", commentChoices}}, false},
	{"userns", func() aa.Rule { return &aa.Userns{} }, []fieldChoices{
		{"Qualifier", qualChoices}, {"Create", []any{true}}, {"Comment", commentChoices}}, false},
	{"all", func() aa.Rule { return &aa.All{} }, []fieldChoices{{"Comment", commentChoices}}, false},
	{"include", func() aa.Rule { return &aa.Include{} }, []fieldChoices{
		{"IfExists", []any{false, true}}, {"Path", []any{"abstractions/base", "local/x", "/etc/apparmor.d/abs"}}, {"IsMagic", []any{true, false}}}, true},
	{"comment", func() aa.Rule { return &aa.Comment{} }, []fieldChoices{{"Comment", []any{" just a comment", " another, with a comma", "included by the parent profile", "abi and alias, profile x {", "aa:"}}}, true},
}

func schemaOf(kind string) *kindSchema {
	for i := range ruleSchemas {
		if ruleSchemas[i].Kind == kind {
			return &ruleSchemas[i]
		}
	}
	return nil
}

// setField sets a (possibly embedded) field by name.
func setField(v reflect.Value, name string, val any) bool {
	if v.Kind() == reflect.Ptr {
		v = v.Elem()
	}
	t := v.Type()
	for i := 0; i < v.NumField(); i++ {
		f := t.Field(i)
		if f.Name == name {
			v.Field(i).Set(reflect.ValueOf(val))
			return true
		}
		if f.Anonymous && v.Field(i).Kind() == reflect.Struct {
			if setField(v.Field(i).Addr(), name, val) {
				return true
			}
		}
	}
	return false
}

// buildRule instantiates the real struct for a choice vector.
func buildRule(sc *kindSchema, vec []int) (aa.Rule, error) {
	r := sc.New()
	for i, fc := range sc.Fields {
		c := vec[i]
		if c >= len(fc.Choices) {
			return nil, fmt.Errorf("choice out of range")
		}
		val := fc.Choices[c]
		if sl, ok := val.([]string); ok {
			val = append([]string{}, sl...)
		}
		if fc.Field == "Comment" && sc.Kind == "comment" {
			setField(reflect.ValueOf(r), "IsLineRule", true)
		}
		if !setField(reflect.ValueOf(r), fc.Field, val) {
			return nil, fmt.Errorf("no field %s in %s", fc.Field, sc.Kind)
		}
	}
	return r, nil
}

type absRuleC struct {
	absRule
	Comment string `json:"comment"`
}

func commentOf(r aa.Rule) string {
	v := reflect.ValueOf(r)
	if v.Kind() == reflect.Ptr {
		v = v.Elem()
	}
	b := v.FieldByName("Base")
	if b.IsValid() {
		// the markers the comment template prints in front of the comment are part of what must come back
		m := ""
		for _, f := range []string{"FileInherit", "NoNewPrivs", "Optional"} {
			if fv := b.FieldByName(f); fv.IsValid() && fv.Bool() {
				m += "[" + f + "]"
			}
		}
		return m + strings.TrimSpace(b.FieldByName("Comment").String())
	}
	return ""
}

func absWithComment(rs aa.Rules) []absRuleC {
	res := []absRuleC{}
	for _, r := range rs {
		if r == nil {
			continue
		}
		res = append(res, absRuleC{abstractRule(r), commentOf(r)})
	}
	return res
}

// semanticFilter: combinations the policy language does not have (the library's Validate is
// lenient); they are enumerated by TLC but not judged.
func validCombo(sc *kindSchema, r aa.Rule) bool {
	// (the library's own Validate is not asked: its tables are part of what is checked - every value of
	// the schemas is valid by apparmor.d(5); only combinations the language does not have are left out)
	switch x := r.(type) {
	case *aa.File:
		hasExec := false
		for _, a := range x.Access {
			if strings.HasSuffix(a, "x") {
				hasExec = true
			}
		}
		if x.Target != "" && !hasExec {
			return false
		}
		if hasExec && x.AccessType == "deny" {
			return false
		}
	case *aa.Dbus:
		isBind := len(x.Access) == 1 && x.Access[0] == "bind"
		if isBind && (x.Path != "" || x.Interface != "" || x.Member != "" || x.PeerName != "" || x.PeerLabel != "") {
			return false
		}
		if !isBind && x.Name != "" {
			return false
		}
	case *aa.Network:
		if x.Domain == "" && (x.Type != "" || x.Protocol != "") {
			return false
		}
		if x.Type != "" && x.Protocol != "" {
			return false
		}
	case *aa.ChangeProfile:
		if x.ExecMode != "" && x.Exec == "" {
			return false
		}
	case *aa.PivotRoot:
		if x.TargetProfile != "" && x.NewRoot == "" {
			return false
		}
	case *aa.Unix:
		if x.Protocol != "" && x.Type == "" {
			return false
		}
	}
	return true
}

type genRule struct {
	Kind string
	Vec  []int
	Rule aa.Rule
	ID   string
}

// enumerateRules runs MC_RuleText and instantiates the vectors.
func enumerateRules(e *Env, r *Report) ([]genRule, bool) {
	schema := map[string]any{}
	for _, sc := range ruleSchemas {
		fs := []any{}
		for _, f := range sc.Fields {
			fs = append(fs, map[string]any{"field": f.Field, "n": len(f.Choices)})
		}
		schema[sc.Kind] = fs
	}
	if err := e.WriteDataModule("RuleSchemaData", "RuleSchema", schema); err != nil {
		r.Fatal = err.Error()
		return nil, false
	}
	res, err := e.RunTLC(TLCOpts{Module: "MC_RuleText", Workers: 12, Timeout: 30 * time.Minute})
	if err != nil {
		r.Fatal = err.Error()
		return nil, false
	}
	r.AddTLC(res)
	if !res.Healthy() {
		r.Fatal = "MC_RuleText did not complete: " + res.Err + tail(res.Out, 600)
		return nil, false
	}
	out := []genRule{}
	skipped := 0
	for _, p := range res.PrintsWithPrefix("BEH") {
		var b struct {
			Kind string `json:"kind"`
			Vec  []int  `json:"vec"`
		}
		if err := json.Unmarshal([]byte(p), &b); err != nil {
			r.Fatal = "bad BEH"
			return nil, false
		}
		sc := schemaOf(b.Kind)
		if sc == nil {
			continue
		}
		rule, err := buildRule(sc, b.Vec)
		if err != nil {
			r.Fatal = err.Error()
			return nil, false
		}
		if !validCombo(sc, rule) {
			skipped++
			continue
		}
		out = append(out, genRule{b.Kind, b.Vec, rule, fmt.Sprintf("%s%v", b.Kind, b.Vec)})
	}
	r.Coverage["rule_vectors"] = len(res.PrintsWithPrefix("BEH"))
	r.Coverage["valid_rules"] = len(out)
	r.Coverage["not_judged_invalid_combinations"] = skipped
	sort.Slice(out, func(i, j int) bool { return out[i].ID < out[j].ID })
	return out, len(out) > 0
}

// stratify picks perClass rules of every class of the space: class = kind + for every field
// whether it is absent (choice 0) or present, with the choice itself for the access list and the
// qualifier - a uniform sample of the vectors rarely meets the rare shapes (dbus bind without name).
func stratify(gen []genRule, perClass int, rng *rand.Rand) []genRule {
	return stratifyBy(gen, perClass, rng, false)
}

// stratifyBy: coarse = presence only for every field (access, qualifier and comment included).
func stratifyBy(gen []genRule, perClass int, rng *rand.Rand, coarse bool) []genRule {
	classes := map[string][]genRule{}
	keys := []string{}
	for _, g := range gen {
		sc := schemaOf(g.Kind)
		var b strings.Builder
		b.WriteString(g.Kind)
		for i, c := range g.Vec {
			f := sc.Fields[i].Field
			_, isList := sc.Fields[i].Choices[c].([]string)
			if !coarse && (f == "Access" || f == "Qualifier" || f == "Comment" || isList) {
				fmt.Fprintf(&b, "|%d", c) // every value list of a table-driven field gets its own class
			} else if c == 0 {
				b.WriteString("|-")
			} else {
				b.WriteString("|x")
			}
		}
		k := b.String()
		if _, ok := classes[k]; !ok {
			keys = append(keys, k)
		}
		classes[k] = append(classes[k], g)
	}
	sort.Strings(keys)
	res := []genRule{}
	for _, k := range keys {
		cl := classes[k]
		rng.Shuffle(len(cl), func(i, j int) { cl[i], cl[j] = cl[j], cl[i] })
		res = append(res, cl[:min(perClass, len(cl))]...)
	}
	return res
}

// execConflict: two file rules on one path with different exec transitions are not a valid block
// (the policy language rejects conflicting x modifiers): such a combination is not generated.
func execConflict(rs aa.Rules, x aa.Rule) bool {
	mode := func(r aa.Rule) (string, string) {
		f, ok := r.(*aa.File)
		if !ok {
			return "", ""
		}
		for _, a := range f.Access {
			if strings.HasSuffix(a, "x") {
				return f.Path, a
			}
		}
		return f.Path, ""
	}
	px, mx := mode(x)
	if mx == "" {
		return false
	}
	for _, r := range rs {
		if p, m := mode(r); m != "" && p == px && m != mx {
			return true
		}
	}
	return false
}

func rebuild(g genRule) aa.Rule {
	r, _ := buildRule(schemaOf(g.Kind), g.Vec)
	return r
}

func roundTrip(id string, rules aa.Rules, format bool) map[string]any {
	rec := map[string]any{"ev": "roundtrip", "id": id, "parseok": false, "rule": []absRuleC{}, "parsed": []absRuleC{}, "text1": "", "text2": ""}
	func() {
		defer func() {
			if p := recover(); p != nil {
				rec["parseok"] = false
				rec["text2"] = fmt.Sprint("panic: ", p)
			}
		}()
		if format {
			rules = rules.Merge().Sort().Format()
		}
		// what must come back: the rules as given, a path or target that holds a blank in its written (quoted) form
		want := aa.Rules{}
		for _, x := range rules {
			switch f := x.(type) {
			case *aa.File:
				c := *f
				c.Path, c.Target = refQuote(c.Path), refQuote(c.Target)
				want = append(want, &c)
			case *aa.Link:
				c := *f
				c.Path, c.Target = refQuote(c.Path), refQuote(c.Target)
				want = append(want, &c)
			default:
				want = append(want, x)
			}
		}
		rec["rule"] = absWithComment(want)
		aa.IndentationLevel = 1
		text1 := rules.String()
		rec["text1"] = text1
		pr, _, err := aa.ParseRules(text1 + "\n\n")
		if err != nil {
			rec["text2"] = "error: " + err.Error()
			return
		}
		parsed := pr.Flatten()
		rec["parsed"] = absWithComment(parsed)
		rec["parseok"] = true
		if format {
			parsed = parsed.Merge().Sort().Format()
		}
		aa.IndentationLevel = 1
		rec["text2"] = parsed.String()
	}()
	aa.IndentationLevel = 0
	classOf[id] = roundTripClass(rec)
	return rec
}

func runRuleTextTrace(e *Env, r *Report, recs []any, prop string) {
	tp := filepath.Join(e.Scratch, "ruletext-"+prop+".ndjson")
	if err := writeNDJSON(tp, recs); err != nil {
		r.Fatal = err.Error()
		return
	}
	tr, err := e.RunTLC(TLCOpts{Module: "RuleTextTrace", Workers: 1, Timeout: 40 * time.Minute, Env: map[string]string{"VERIF_TRACE": tp}})
	if err != nil {
		r.Fatal = err.Error()
		return
	}
	r.AddTLC(tr)
	if !tr.Healthy() {
		r.Fatal = "RuleTextTrace did not complete: " + tr.Err + tail(tr.Out, 1500)
		return
	}
	r.Traces += len(recs)
	for _, p := range tr.PrintsWithPrefix("VIOL") {
		var x struct {
			P    string          `json:"p"`
			ID   string          `json:"id"`
			What string          `json:"what"`
			D    json.RawMessage `json:"d"`
		}
		if err := json.Unmarshal([]byte(p), &x); err != nil {
			r.Fatal = "bad VIOL"
			return
		}
		if x.P != prop {
			continue
		}
		// the key is the abstract CLASS of the counterexample (kind + what differs), so that a
		// recorded finding covers an infinite family of inputs but not a different defect
		cls := x.ID
		if c, ok := classOf[x.ID]; ok {
			cls = c
		}
		r.Violate(prop+"|"+cls+"|"+shortWhat(x.What), x.What+" e.g. "+strings.ReplaceAll(x.ID, "\n", " "), map[string]any{"id": x.ID, "detail": x.D})
	}
}

var classOf = map[string]string{}

func splitSubject(s string) map[string]string {
	m := map[string]string{}
	for _, kv := range strings.Split(s, ";") {
		k, v, _ := strings.Cut(kv, "=")
		m[k] = v
	}
	return m
}

// roundTripClass names what differs between the rules printed and the rules parsed back.
func roundTripClass(rec map[string]any) string {
	rule, _ := rec["rule"].([]absRuleC)
	parsed, _ := rec["parsed"].([]absRuleC)
	scope := strings.SplitN(fmt.Sprint(rec["id"]), ":", 2)[0]
	kinds := map[string]bool{}
	for _, r := range rule {
		kinds[r.K] = true
	}
	ks := []string{}
	for k := range kinds {
		ks = append(ks, k)
	}
	sort.Strings(ks)
	if rec["parseok"] != true {
		msg := fmt.Sprint(rec["text2"])
		if i := strings.Index(msg, ":"); i > 0 && i < 40 {
			msg = msg[:i]
		}
		if len(msg) > 40 {
			msg = msg[:40]
		}
		return scope + "|reject|" + strings.Join(ks, ",") + "|" + msg
	}
	if len(rule) != len(parsed) {
		return scope + "|count|" + strings.Join(ks, ",")
	}
	diffs := map[string]bool{}
	for i := range rule {
		a, b := rule[i], parsed[i]
		if a.K != b.K {
			diffs[a.K+":kind"] = true
			continue
		}
		if a.Q != b.Q {
			diffs[a.K+":qualifier"] = true
		}
		if a.Comment != b.Comment {
			diffs[a.K+":comment"] = true
		}
		sa, sb := splitSubject(a.S), splitSubject(b.S)
		for k, v := range sa {
			if sb[k] != v {
				diffs[a.K+":"+k] = true
			}
		}
		ja, _ := json.Marshal(a.D)
		jb, _ := json.Marshal(b.D)
		if string(ja) != string(jb) {
			diffs[a.K+":lists"] = true
		}
	}
	ds := []string{}
	for d := range diffs {
		ds = append(ds, d)
	}
	sort.Strings(ds)
	if len(ds) == 0 {
		return scope + "|text|" + strings.Join(ks, ",")
	}
	return scope + "|fields|" + strings.Join(ds, ",")
}

func checkC09(e *Env, r *Report) {
	gen, ok := enumerateRules(e, r)
	if !ok {
		if r.Fatal == "" {
			r.Fatal = "no rule generated"
		}
		return
	}
	// C09 takes a path in its written form: one that holds a blank comes quoted (as the parser delivers it); the
	// unquoted form only exists in rules built from logs and is C12's business (the printer must quote it)
	{
		kept := gen[:0:0]
		for _, g := range gen {
			if f, isFile := g.Rule.(*aa.File); isFile && strings.ContainsAny(f.Path, " ") && !strings.HasPrefix(f.Path, `"`) {
				continue
			}
			kept = append(kept, g)
		}
		gen = kept
	}
	rng := rand.New(rand.NewSource(e.Seed))
	rng.Shuffle(len(gen), func(i, j int) { gen[i], gen[j] = gen[j], gen[i] })
	recs := []any{}
	// single rules: quick = seeded sample per kind (spread over the whole space), thorough = all
	singles := gen
	if e.Tier != "thorough" {
		singles = stratify(gen, 1, rng)
	}
	r.Coverage["single_rule_classes"] = len(stratify(gen, 1, rand.New(rand.NewSource(1))))
	for _, g := range singles {
		recs = append(recs, roundTrip("rule:"+ruleLabel(g), aa.Rules{rebuild(g)}, false))
	}
	nSingle := len(recs)
	// blocks of mixed rules after Merge + Sort + Format
	nBlocks := 600
	if e.Tier == "thorough" {
		nBlocks = 8000
	}
	for i := 0; i < nBlocks; i++ {
		n := 2 + rng.Intn(4)
		rs := aa.Rules{}
		ids := []string{}
		for k := 0; k < n; k++ {
			g := gen[rng.Intn(len(gen))]
			if g.Kind == "comment" || g.Kind == "include" {
				k--
				continue
			}
			if execConflict(rs, rebuild(g)) {
				k--
				continue
			}
			rs = append(rs, rebuild(g))
			ids = append(ids, ruleLabel(g))
		}
		recs = append(recs, roundTrip("block:"+strings.Join(ids, " + "), rs, true))
	}
	// trailing comments that hold backslashes (a Windows path, a line that ends in one, a doubled one) in front of
	// another rule: inside a comment a backslash escapes nothing, the end of the line ends the comment
	nCmt := 0
	for _, c := range []string{` see C:\tmp\`, ` ends in a backslash \`, ` two \\`, ` \" quote after a backslash`, ` mid\dle`} {
		mk := []func() aa.Rule{
			func() aa.Rule { return &aa.File{Path: "/usr/bin/foo", Access: []string{"r"}} },
			func() aa.Rule { return &aa.Capability{Names: []string{"chown"}} },
			func() aa.Rule { return &aa.Network{} },
		}
		for i := range mk {
			first := mk[i]()
			setField(reflect.ValueOf(first).Elem(), "Comment", c)
			for _, second := range []aa.Rule{&aa.File{Path: "/usr/bin/zbar", Access: []string{"w"}}, &aa.Signal{Access: []string{"send"}, Set: []string{"term"}, Peer: "peerprof"}} {
				recs = append(recs, roundTrip(fmt.Sprintf("block:cmtbackslash:%d:%q", i, c), aa.Rules{first, second}, false))
				recs = append(recs, roundTrip(fmt.Sprintf("block:cmtbackslash:fmt:%d:%q", i, c), aa.Rules{mk[i](), first, second}, true))
				nCmt += 2
			}
		}
	}
	r.Coverage["comment_backslash_blocks"] = nCmt
	// whole files: preamble + header
	nFiles := 300
	if e.Tier == "thorough" {
		nFiles = 3000
	}
	for i := 0; i < nFiles; i++ {
		recs = append(recs, fileRoundTrip(rng, i))
	}
	r.Coverage["single_rules"] = nSingle
	r.Coverage["blocks"] = nBlocks
	r.Coverage["files"] = nFiles
	r.Sample(recs[0])
	r.Sample(recs[nSingle])
	runRuleTextTrace(e, r, recs, "C09")
	if r.Fatal == "" {
		lexModel(e, r)
	}
}

func ruleLabel(g genRule) string {
	aa.IndentationLevel = 0
	return strings.TrimSpace(rebuild(g).String())
}

// fileRoundTrip: a generated profile file through AppArmorProfileFile.String() and Parse().
func fileRoundTrip(rng *rand.Rand, n int) map[string]any {
	rec := map[string]any{"ev": "filert", "id": "", "parseok": false, "ordered1": []string{}, "ordered2": []string{}, "set1": []string{}, "set2": []string{}, "header1": "", "header2": "", "text1": ""}
	f := &aa.AppArmorProfileFile{}
	nPre := rng.Intn(6)
	desc := []string{}
	for i := 0; i < nPre; i++ {
		switch rng.Intn(5) {
		case 0:
			// (also comments written without a blank after the '#', whose first word looks like a keyword)
			f.Preamble = append(f.Preamble, &aa.Comment{Base: aa.Base{Comment: []string{fmt.Sprintf(" c%d", i), fmt.Sprintf("included by c%d", i), fmt.Sprintf("abi c%d", i), fmt.Sprintf(" c%d", i)}[rng.Intn(4)], IsLineRule: true}})
			desc = append(desc, "cmt")
		case 1:
			inc := &aa.Include{Path: fmt.Sprintf("tunables/v%d", i), IsMagic: true, IfExists: rng.Intn(2) == 0}
			if rng.Intn(3) == 0 {
				inc.Comment = " a note, with # inside"
			}
			f.Preamble = append(f.Preamble, inc)
			desc = append(desc, "inc")
		case 2:
			// values that hold '#', '=' and '+' (tmp files, options), with and without a trailing comment
			vals := [][]string{{"/a"}, {"/a", "@{bin}/{x,y}"}, {"/{var/,}tmp/#@{int}", "/a"}, {"@{lib}/g++", "/opt/id=42.db"}}[rng.Intn(4)]
			v := &aa.Variable{Name: fmt.Sprintf("v%d", i), Define: rng.Intn(3) != 0, Values: vals}
			if rng.Intn(2) == 0 {
				v.Comment = " anonymous files"
			}
			f.Preamble = append(f.Preamble, v)
			desc = append(desc, fmt.Sprintf("var%d", len(vals)))
		case 3:
			f.Preamble = append(f.Preamble, &aa.Abi{Path: fmt.Sprintf("abi/v%d", i), IsMagic: true})
			desc = append(desc, "abi")
		case 4:
			f.Preamble = append(f.Preamble, &aa.Alias{Path: fmt.Sprintf("/old%d", i), RewrittenPath: fmt.Sprintf("/new%d", i)})
			desc = append(desc, "alias")
		}
	}
	// the same preamble rule written twice (an include before and after the variables, a repeated comment)
	if len(f.Preamble) > 0 && rng.Intn(3) == 0 {
		src := f.Preamble[rng.Intn(len(f.Preamble))]
		switch x := src.(type) {
		case *aa.Include:
			c := *x
			if rng.Intn(2) == 0 {
				c.Comment = " once more"
			}
			f.Preamble = append(f.Preamble, &c)
			desc = append(desc, "inc-again")
		case *aa.Comment:
			c := *x
			f.Preamble = append(f.Preamble, &c)
			desc = append(desc, "cmt-again")
		}
	}
	h := aa.Header{Name: "vgen-prof", Attachments: [][]string{{}, {"@{exec_path}"}, {"/usr/bin/a", "/usr/bin/{b,c}"}, {"@{bin}/x", "/opt/y", "@{lib}/z"},
		{`"/opt/My App/bin/run"`, "/usr/bin/foo"}, {`"/opt/My {App,Tool}/bin/run"`, "/usr/bin/foo"}, {"/usr/bin/foo", `"/opt/a b/{c,d e}/{ f}"`}}[rng.Intn(7)],
		Flags: [][]string{{}, {"complain"}, {"attach_disconnected", "mediate_deleted"}, {"attach_disconnected", "complain", "mediate_deleted"}}[rng.Intn(4)]}
	switch rng.Intn(3) {
	case 1:
		h.Attributes = map[string]string{"security.tag": "x"}
	case 2:
		h.Attributes = map[string]string{"security.tag": "x", "user.kind": "y"}
	}
	p := &aa.Profile{Header: h}
	p.Rules = aa.Rules{&aa.Include{Path: "abstractions/base", IsMagic: true}, &aa.File{Path: "/etc/x", Access: []string{"r"}}}
	f.Profiles = []*aa.Profile{p}
	rec["id"] = fmt.Sprintf("file:%s|att%d|fl%d|xa%d", strings.Join(desc, ","), len(h.Attachments), len(h.Flags), len(h.Attributes))
	ordered := func(rs aa.Rules) ([]string, []string) {
		o, s := []string{}, []string{}
		for _, r := range rs {
			if r == nil {
				continue
			}
			b, _ := json.Marshal(absRuleC{abstractRule(r), commentOf(r)})
			switch r.Kind() {
			case aa.ABI, aa.ALIAS:
				s = append(s, string(b))
			default:
				o = append(o, string(b))
			}
		}
		sort.Strings(s)
		return o, s
	}
	hdr := func(h aa.Header) string {
		fl := append([]string{}, h.Flags...)
		sort.Strings(fl)
		ks := []string{}
		for k, v := range h.Attributes {
			ks = append(ks, k+"="+v)
		}
		sort.Strings(ks)
		return fmt.Sprintf("name=%s att=%v flags=%v xattrs=%v", h.Name, h.Attachments, fl, ks)
	}
	func() {
		defer func() {
			if pn := recover(); pn != nil {
				rec["text1"] = fmt.Sprint(rec["text1"], " panic: ", pn)
			}
		}()
		rec["ordered1"], rec["set1"] = ordered(f.Preamble)
		rec["header1"] = hdr(h)
		aa.IndentationLevel = 0
		text := f.String()
		rec["text1"] = text
		g := &aa.AppArmorProfileFile{}
		if _, err := g.Parse(text); err != nil {
			rec["header2"] = "error: " + err.Error()
			return
		}
		rec["parseok"] = true
		rec["ordered2"], rec["set2"] = ordered(g.Preamble)
		if len(g.Profiles) > 0 {
			rec["header2"] = hdr(g.Profiles[0].Header)
		}
	}()
	aa.IndentationLevel = 0
	return rec
}

// ---------------------------------------------------------------- C12

// refQuote: apparmor.d(5) - a path holding whitespace is written between double quotes.
func refQuote(p string) string {
	if strings.ContainsAny(p, " \t") && !strings.HasPrefix(p, `"`) {
		return `"` + p + `"`
	}
	return p
}

// refRender: an independent rendering of a rule's fields, written from apparmor.d(5).
func refRender(r aa.Rule) (string, bool) {
	q := func(a aa.Qualifier) string {
		s := ""
		if a.Audit {
			s += "audit "
		}
		if a.AccessType != "" {
			s += a.AccessType + " "
		}
		return s
	}
	list := func(xs []string) string {
		if len(xs) == 0 {
			return ""
		}
		return "(" + strings.Join(xs, ", ") + ")"
	}
	opt := func(k, v string) string {
		if v == "" {
			return ""
		}
		return " " + k + "=" + v
	}
	switch x := r.(type) {
	case *aa.File:
		o := ""
		if x.Owner {
			o = "owner "
		}
		t := ""
		if x.Target != "" {
			t = " -> " + x.Target
		}
		if x.Target != "" {
			t = " -> " + refQuote(x.Target)
		}
		return q(x.Qualifier) + o + "file " + refQuote(x.Path) + " " + strings.Join(x.Access, "") + t + ",", true
	case *aa.Link:
		o := ""
		if x.Owner {
			o = "owner "
		}
		sub := ""
		if x.Subset {
			sub = "subset "
		}
		return q(x.Qualifier) + o + "link " + sub + x.Path + " -> " + x.Target + ",", true
	case *aa.Capability:
		return q(x.Qualifier) + "capability " + strings.Join(x.Names, " ") + ",", true
	case *aa.Network:
		return q(x.Qualifier) + strings.TrimSpace("network "+x.Domain+" "+x.Type+" "+x.Protocol) + ",", true
	case *aa.Mount:
		s := q(x.Qualifier) + "mount"
		if len(x.Options) > 0 {
			s += " options=" + list(x.Options)
		}
		s += opt("fstype", x.FsType)
		if x.Source != "" {
			s += " " + x.Source
		}
		if x.MountPoint != "" {
			s += " -> " + x.MountPoint
		}
		return s + ",", true
	case *aa.Umount:
		s := q(x.Qualifier) + "umount"
		if len(x.Options) > 0 {
			s += " options=" + list(x.Options)
		}
		s += opt("fstype", x.FsType)
		if x.MountPoint != "" {
			s += " " + x.MountPoint
		}
		return s + ",", true
	case *aa.Remount:
		s := q(x.Qualifier) + "remount"
		if len(x.Options) > 0 {
			s += " options=" + list(x.Options)
		}
		s += opt("fstype", x.FsType)
		if x.MountPoint != "" {
			s += " " + x.MountPoint
		}
		return s + ",", true
	case *aa.PivotRoot:
		s := q(x.Qualifier) + "pivot_root" + opt("oldroot", x.OldRoot)
		if x.NewRoot != "" {
			s += " " + x.NewRoot
		}
		if x.TargetProfile != "" {
			s += " -> " + x.TargetProfile
		}
		return s + ",", true
	case *aa.ChangeProfile:
		s := q(x.Qualifier) + "change_profile"
		if x.ExecMode != "" {
			s += " " + x.ExecMode
		}
		if x.Exec != "" {
			s += " " + x.Exec
		}
		if x.ProfileName != "" {
			s += " -> " + x.ProfileName
		}
		return s + ",", true
	case *aa.Signal:
		s := q(x.Qualifier) + "signal"
		if len(x.Access) > 0 {
			s += " " + list(x.Access)
		}
		if len(x.Set) > 0 {
			s += " set=" + list(x.Set)
		}
		return s + opt("peer", x.Peer) + ",", true
	case *aa.Ptrace:
		s := q(x.Qualifier) + "ptrace"
		if len(x.Access) > 0 {
			s += " " + list(x.Access)
		}
		return s + opt("peer", x.Peer) + ",", true
	case *aa.Unix:
		s := q(x.Qualifier) + "unix"
		if len(x.Access) > 0 {
			s += " " + list(x.Access)
		}
		s += opt("type", x.Type) + opt("protocol", x.Protocol) + opt("addr", x.Address) + opt("label", x.Label) + opt("attr", x.Attr) + opt("opt", x.Opt)
		peer := strings.TrimSpace(opt("label", x.PeerLabel) + opt("addr", x.PeerAddr))
		if peer != "" {
			s += " peer=(" + strings.Join(strings.Fields(peer), ", ") + ")"
		}
		return s + ",", true
	case *aa.Dbus:
		s := q(x.Qualifier) + "dbus"
		if len(x.Access) > 0 {
			s += " " + list(x.Access)
		}
		s += opt("bus", x.Bus) + opt("name", x.Name) + opt("path", x.Path) + opt("interface", x.Interface) + opt("member", x.Member)
		peer := strings.TrimSpace(opt("name", x.PeerName) + opt("label", x.PeerLabel))
		if peer != "" {
			s += " peer=(" + strings.Join(strings.Fields(peer), ", ") + ")"
		}
		return s + ",", true
	case *aa.Rlimit:
		return "set rlimit " + x.Key + " " + x.Op + " " + x.Value + ",", true
	}
	return "", false
}

var c12mu sync.Mutex

// meaningClass: kind + which fields are set + (when rejected) the parser's complaint
func meaningClass(r aa.Rule, got parserOut) string {
	a := abstractRule(r)
	set := []string{}
	for k, v := range splitSubject(a.S) {
		if v != "" && v != "false" {
			set = append(set, k)
		}
	}
	for i, d := range a.D {
		if len(d) > 0 {
			set = append(set, fmt.Sprintf("list%d", i+1))
		}
	}
	sort.Strings(set)
	c := a.K + "|" + strings.Join(set, ",")
	if !got.OK {
		c += "|" + diagClass(got.Diag)
	}
	return c
}

const stubHead = "abi <abi/3.0>,\ninclude <tunables/global>\n@{p_dbus} = dbusd\nprofile vstub /usr/bin/vstub {\n"

type parserOut struct {
	OK   bool
	Diag string
	Bin  string
}

var stubBase = "/etc/apparmor.d"

// compileWhole compiles a whole profile block (header included) over the shipped tunables.
func compileWhole(dir, name, text string) parserOut {
	p := filepath.Join(dir, name)
	_ = os.WriteFile(p, []byte("abi <abi/3.0>,\ninclude <tunables/global>\n"+text+"\n"), 0o644)
	defer os.Remove(p)
	cmd := exec.Command("/usr/sbin/apparmor_parser", "-Q", "-K", "-S", "--kernel-features", "/etc/apparmor.d/abi/3.0", "-b", stubBase, "-I", stubBase, p)
	var out, errb strings.Builder
	cmd.Stdout = &out
	cmd.Stderr = &errb
	if err := cmd.Run(); err != nil {
		d := ""
		for _, l := range strings.Split(errb.String(), "\n") {
			if strings.Contains(l, "rror") && !strings.Contains(l, "Cache") {
				d = strings.TrimSpace(strings.ReplaceAll(l, p, "<stub>"))
				break
			}
		}
		return parserOut{false, d, ""}
	}
	return parserOut{true, "", sha([]byte(out.String()))}
}

func compileStub(dir, name, body string) parserOut {
	p := filepath.Join(dir, name)
	_ = os.WriteFile(p, []byte(stubHead+body+"\n}\n"), 0o644)
	defer os.Remove(p)
	cmd := exec.Command("/usr/sbin/apparmor_parser", "-Q", "-K", "-S", "--kernel-features", "/etc/apparmor.d/abi/3.0", "-b", stubBase, "-I", stubBase, p)
	var out, errb strings.Builder
	cmd.Stdout = &out
	cmd.Stderr = &errb
	if err := cmd.Run(); err != nil {
		d := ""
		for _, l := range strings.Split(errb.String(), "\n") {
			if strings.Contains(l, "rror") && !strings.Contains(l, "Cache") {
				d = strings.TrimSpace(strings.ReplaceAll(l, p, "<stub>"))
				break
			}
		}
		return parserOut{false, d, ""}
	}
	return parserOut{true, "", sha([]byte(out.String()))}
}

func checkC12(e *Env, r *Report) {
	r.Level = "translation_validation"
	if _, err := os.Stat("/usr/sbin/apparmor_parser"); err != nil {
		r.Fatal = "apparmor_parser not installed"
		return
	}
	// stubs are compiled over the shipped tunables (upstream policy dir + tunables of a real build)
	if err := e.BuildTools(); err != nil {
		r.Fatal = err.Error()
		return
	}
	if err := e.CopySource(); err != nil {
		r.Fatal = err.Error()
		return
	}
	tb := e.RunPrebuild(Cfg{"arch", 3, "3.0", "none", false}, BuildOpts{NoCache: true})
	if tb.Err != nil {
		r.Fatal = tb.Err.Error()
		return
	}
	ov, err := tunablesOverlay(e, tb.Out)
	tb.Drop()
	if err != nil {
		r.Fatal = err.Error()
		return
	}
	stubBase = ov
	gen, ok := enumerateRules(e, r)
	if !ok {
		if r.Fatal == "" {
			r.Fatal = "no rule generated"
		}
		return
	}
	rng := rand.New(rand.NewSource(e.Seed))
	rng.Shuffle(len(gen), func(i, j int) { gen[i], gen[j] = gen[j], gen[i] })
	cand := []genRule{}
	pool := gen
	if e.Tier != "thorough" {
		// one rule of every class (kind x present fields x access x qualifier), comments merged
		noc := []genRule{}
		for _, g := range gen {
			sc := schemaOf(g.Kind)
			ci := -1
			for i, f := range sc.Fields {
				if f.Field == "Comment" {
					ci = i
				}
			}
			if ci < 0 || g.Vec[ci] == 0 {
				noc = append(noc, g)
			}
		}
		pool = stratify(noc, 1, rng)
		// and one commented rule of every (kind x present fields) class: where the comment is put matters to the parser
		withc := []genRule{}
		for _, g := range gen {
			sc := schemaOf(g.Kind)
			for i, f := range sc.Fields {
				if f.Field == "Comment" && g.Vec[i] != 0 {
					withc = append(withc, g)
				}
			}
		}
		pool = append(pool, stratifyBy(withc, 1, rng, true)...)
	}
	for _, g := range pool {
		sc := schemaOf(g.Kind)
		if !sc.AA3 || g.Kind == "include" || g.Kind == "comment" {
			continue
		}
		cand = append(cand, g)
	}
	r.Coverage["single_rules_shown_to_reference_parser"] = len(cand)
	dir := filepath.Join(e.Scratch, "stubs")
	_ = os.MkdirAll(dir, 0o755)
	recs := make([]any, len(cand))
	parallel(len(cand), 16, func(i int) {
		g := cand[i]
		rule := rebuild(g)
		ref, okRef := refRender(rule)
		var text string
		func() {
			defer func() { _ = recover() }()
			text = rule.String()
		}()
		got := compileStub(dir, fmt.Sprintf("a%d", i), "  "+strings.TrimSpace(text))
		rec := map[string]any{"ev": "meaning", "id": "rule:" + g.ID + " " + strings.TrimSpace(text), "text": strings.TrimSpace(text), "reftext": ref, "accepted": got.OK, "diag": got.Diag, "refaccepted": false, "samepolicy": false}
		if okRef {
			want := compileStub(dir, fmt.Sprintf("b%d", i), "  "+ref)
			rec["refaccepted"] = want.OK
			rec["samepolicy"] = want.OK && got.OK && want.Bin == got.Bin
			if !want.OK && !got.OK {
				// neither rendering is valid AppArmor 3: the combination is outside the language, not judged
				rec["accepted"] = true
				rec["refaccepted"] = false
			}
		}
		recs[i] = rec
		c12mu.Lock()
		classOf[fmt.Sprint(rec["id"])] = meaningClass(rule, got)
		c12mu.Unlock()
	})
	// file rules of the character-level universe (RuleLex): every lexical feature in paths and targets
	if lb := lexBehaviours(e, r); lb != nil {
		lrs := []lexRule{}
		for _, b := range lb {
			if len(b.Rules) == 1 {
				lrs = append(lrs, b.Rules[0])
			}
		}
		if e.Tier != "thorough" && len(lrs) > 400 {
			rng.Shuffle(len(lrs), func(i, j int) { lrs[i], lrs[j] = lrs[j], lrs[i] })
			lrs = lrs[:400]
		}
		lrecs := make([]any, len(lrs))
		parallel(len(lrs), 16, func(i int) {
			rule := lrs[i].real()
			ref, _ := refRender(rule)
			var text string
			func() {
				defer func() { _ = recover() }()
				text = rule.String()
			}()
			got := compileStub(dir, fmt.Sprintf("x%d", i), "  "+strings.TrimSpace(text))
			want := compileStub(dir, fmt.Sprintf("y%d", i), "  "+ref)
			rec := map[string]any{"ev": "meaning", "id": "lex:" + strings.TrimSpace(text), "text": strings.TrimSpace(text), "reftext": ref, "accepted": got.OK, "diag": got.Diag,
				"refaccepted": want.OK, "samepolicy": want.OK && got.OK && want.Bin == got.Bin}
			if !want.OK && !got.OK {
				rec["accepted"] = true // outside the language for the reference parser: not judged
				rec["refaccepted"] = false
			}
			lrecs[i] = rec
			c12mu.Lock()
			classOf[fmt.Sprint(rec["id"])] = "lex|" + diagClass(got.Diag)
			c12mu.Unlock()
		})
		nNot := 0
		for _, x := range lrecs {
			if m := x.(map[string]any); m["refaccepted"] == false {
				nNot++
			}
		}
		r.Coverage["lex_rules_shown_to_reference_parser"] = len(lrecs)
		r.Coverage["lex_rules_outside_reference_language"] = nNot
		recs = append(recs, lrecs...)
	} else if r.Fatal != "" {
		return
	}
	// pairs of rules that MERGE into one and both carry a comment: the combined comment is printed behind
	// the merged rule (a comment that starts with a keyword such as include must stay a comment)
	{
		mk := func(acc string, cmt string) aa.Rule {
			f := &aa.File{Path: "/etc/vgen-demo/", Access: []string{acc}}
			f.Comment = cmt
			return f
		}
		cmts := []string{" include <abstractions/nis> was considered", " second note", " #include <abstractions/x>", " abi <abi/4.0>, old", " @{var} = x"}
		for i, c1 := range cmts {
			for j, c2 := range cmts {
				if i == j {
					continue
				}
				var text string
				func() {
					defer func() { _ = recover() }()
					rs := aa.Rules{mk("r", c1), mk("w", c2), &aa.Capability{Names: []string{"chown"}}}.Merge().Sort().Format()
					aa.IndentationLevel = 1
					text = rs.String()
					aa.IndentationLevel = 0
				}()
				ref := "  file /etc/vgen-demo/ rw,\n  capability chown,"
				got := compileStub(dir, fmt.Sprintf("m%d_%d", i, j), text)
				want := compileStub(dir, fmt.Sprintf("n%d_%d", i, j), ref)
				id := fmt.Sprintf("mergedcomment:%s|%s", strings.TrimSpace(c1), strings.TrimSpace(c2))
				recs = append(recs, map[string]any{"ev": "meaning", "id": id, "text": text, "reftext": ref, "accepted": got.OK, "diag": got.Diag, "refaccepted": want.OK, "samepolicy": want.OK && got.OK && want.Bin == got.Bin})
				classOf[id] = "mergedcomment|" + diagClass(got.Diag)
			}
		}
	}
	// every kind at least three times inside a block (the block printer dispatches on the kind)
	{
		perKind := map[string]int{}
		bi := 0
		for _, g := range cand {
			if perKind[g.Kind] >= 3 {
				continue
			}
			perKind[g.Kind]++
			bi++
			rs := aa.Rules{rebuild(g), &aa.Capability{Names: []string{"chown"}}}
			var text string
			func() {
				defer func() { _ = recover() }()
				rs = rs.Merge().Sort().Format()
				aa.IndentationLevel = 1
				text = rs.String()
				aa.IndentationLevel = 0
			}()
			refs := []string{}
			allRef := true
			for _, x := range rs {
				if x == nil {
					continue
				}
				s1, ok := refRender(x)
				if !ok {
					allRef = false
				}
				refs = append(refs, "  "+s1)
			}
			if !allRef {
				continue
			}
			got := compileStub(dir, fmt.Sprintf("k%d", bi), text)
			want := compileStub(dir, fmt.Sprintf("j%d", bi), strings.Join(refs, "\n"))
			id := fmt.Sprintf("kindblock:%s:%s", g.Kind, strings.TrimSpace(text))
			rec := map[string]any{"ev": "meaning", "id": id, "text": text, "reftext": strings.Join(refs, "\n"), "accepted": got.OK, "diag": got.Diag, "refaccepted": want.OK, "samepolicy": want.OK && got.OK && want.Bin == got.Bin}
			if !want.OK && !got.OK {
				rec["accepted"] = true
				rec["refaccepted"] = false
			}
			classOf[id] = "kindblock|" + g.Kind + "|" + diagClass(got.Diag)
			recs = append(recs, rec)
		}
	}
	// merged and formatted blocks, rules from logs and from directives
	nBlocks := 150
	if e.Tier == "thorough" {
		nBlocks = 2500
	}
	for i := 0; i < nBlocks; i++ {
		n := 2 + rng.Intn(4)
		rs := aa.Rules{}
		refs := []string{}
		for k := 0; k < n; k++ {
			g := cand[rng.Intn(len(cand))]
			if execConflict(rs, rebuild(g)) {
				k--
				continue
			}
			rs = append(rs, rebuild(g))
		}
		var text string
		func() {
			defer func() { _ = recover() }()
			rs = rs.Merge().Sort().Format()
			aa.IndentationLevel = 1
			text = rs.String()
			aa.IndentationLevel = 0
		}()
		allRef := true
		for _, x := range rs {
			if x == nil {
				continue
			}
			s, ok := refRender(x)
			if !ok {
				allRef = false
			}
			refs = append(refs, "  "+s)
		}
		got := compileStub(dir, fmt.Sprintf("c%d", i), text)
		rec := map[string]any{"ev": "meaning", "id": fmt.Sprintf("block:%s", shaS(text)), "text": text, "reftext": strings.Join(refs, "\n"), "accepted": got.OK, "diag": got.Diag, "refaccepted": false, "samepolicy": false}
		if allRef {
			want := compileStub(dir, fmt.Sprintf("d%d", i), strings.Join(refs, "\n"))
			rec["refaccepted"] = want.OK
			rec["samepolicy"] = want.OK && got.OK && want.Bin == got.Bin
			if !want.OK && !got.OK {
				rec["accepted"] = true
			}
		}
		recs = append(recs, rec)
	}
	// rules printed from logs: every record class of the C16 generator through the real
	// log -> rules pipeline; the printed rules must be accepted by the reference parser
	nLog := 0
	tuples := []ruleTuple{}
	for _, cls := range []string{"file:open", "file:exec", "file:link", "file:file_mmap", "cap", "net:inet", "net:unix", "signal", "ptrace", "dbus", "mount", "umount", "remount", "pivotroot", "rlimits", "change_onexec"} {
		for _, m := range []string{"r", "rw", "wc", "x", "a"} {
			for nc := 1; nc <= len(nameClasses); nc++ {
				tuples = append(tuples, ruleTuple{cls, m, []string{"ALLOWED", "DENIED", "AUDIT"}[(nc+len(m))%3], nc%2 == 0, nc})
			}
		}
	}
	rng.Shuffle(len(tuples), func(i, j int) { tuples[i], tuples[j] = tuples[j], tuples[i] })
	maxLog := 120
	if e.Tier == "thorough" {
		maxLog = len(tuples)
	}
	seenL := map[string]bool{}
	for i, t := range tuples {
		if nLog >= maxLog {
			break
		}
		line, _, _ := renderRuleRecord(t, i+1, i)
		k := line[strings.Index(line, "apparmor="):]
		k = strings.ReplaceAll(k, "gen"+lettersOf(i+1), "")
		k = strings.ReplaceAll(k, fmt.Sprintf("pid=%d", 4000+i+1), "")
		if seenL[k] {
			continue
		}
		seenL[k] = true
		var body string
		func() {
			defer func() { _ = recover() }()
			for _, p := range logs.New(strings.NewReader(line+"\n"), "").ParseToProfiles() {
				p.Merge(nil)
				p.Sort()
				p.Format()
				aa.IndentationLevel = 1
				body = p.Rules.String()
				aa.IndentationLevel = 0
			}
		}()
		got := compileStub(dir, fmt.Sprintf("l%d", i), body)
		id := fmt.Sprintf("log:%s|%s|%s", t.Cls, t.Mask, strings.TrimSpace(body))
		classOf[id] = "log|" + t.Cls + "|" + diagClass(got.Diag)
		recs = append(recs, map[string]any{"ev": "meaning", "id": id, "text": body, "reftext": "", "accepted": got.OK, "diag": got.Diag, "refaccepted": false, "samepolicy": false})
		nLog++
	}
	// network records: family, socket type and protocol number of the record against the rule written by hand
	// from the family and the type (a protocol name is only another way to name a type: tcp = stream, icmp = raw)
	ni := 0
	for _, fam := range []string{"inet", "inet6"} {
		for _, st := range []string{"stream", "dgram", "raw"} {
			for _, proto := range []int{0, 1, 6, 17, 58} {
				ni++
				line := fmt.Sprintf(`type=AVC msg=audit(1.1:%d): apparmor="ALLOWED" operation="create" class="net" profile="netprof" pid=1 comm="c" family="%s" sock_type="%s" protocol=%d requested_mask="create" denied_mask="create"`, ni, fam, st, proto)
				var body string
				func() {
					defer func() { _ = recover() }()
					for _, p := range logs.New(strings.NewReader(line+"\n"), "").ParseToProfiles() {
						p.Merge(nil)
						p.Sort()
						p.Format()
						aa.IndentationLevel = 1
						body = p.Rules.String()
						aa.IndentationLevel = 0
					}
				}()
				ref := fmt.Sprintf("  network %s %s,\n", fam, st)
				got := compileStub(dir, fmt.Sprintf("n%d", ni), body)
				want := compileStub(dir, fmt.Sprintf("nr%d", ni), ref)
				id := fmt.Sprintf("log:net|%s|%s|%d", fam, st, proto)
				classOf[id] = "log|net|" + diagClass(got.Diag)
				recs = append(recs, map[string]any{"ev": "meaning", "id": id, "text": body, "reftext": ref, "accepted": got.OK, "diag": got.Diag, "refaccepted": want.OK, "samepolicy": want.OK && got.OK && want.Bin == got.Bin})
				nLog++
			}
		}
	}
	r.Coverage["rules_from_logs"] = nLog
	// the real aa-log binary in rules mode: every profile block it prints for a log must load, and
	// compile to the same policy as what the library renders for the same record
	{
		type binRec struct {
			prof, line, cls string
		}
		brecs := []binRec{}
		add := func(cls, line, prof string) { brecs = append(brecs, binRec{prof, line, cls}) }
		bi := 0
		for _, cls := range []string{"file:open", "file:exec", "file:link", "file:file_mmap", "cap", "net:inet", "signal", "ptrace", "dbus", "mount", "umount", "remount", "pivotroot", "rlimits", "change_onexec"} {
			for _, nc := range []int{1, 6, 12, 20} {
				bi++
				line, want, _ := renderRuleRecord(ruleTuple{cls, []string{"r", "rw", "wc"}[bi%3], []string{"ALLOWED", "DENIED", "AUDIT"}[bi%3], bi%2 == 0, nc}, 200000+bi, bi)
				add(cls, line, str(want["profile"]))
			}
		}
		// values a formatting function would misread, and records that add a profile flag
		special := []string{
			`apparmor="ALLOWED" operation="open" class="file" profile="PROF" name="/srv/www/report%20final.txt" pid=1 comm="c" requested_mask="r" denied_mask="r" fsuid=1000 ouid=1000`,
			`apparmor="ALLOWED" operation="open" class="file" profile="PROF" name="/srv/100%_cotton/$HOME/$1/a" pid=1 comm="c" requested_mask="rw" denied_mask="rw" fsuid=1000 ouid=0`,
			`apparmor="ALLOWED" operation="open" class="file" info="Failed name lookup - deleted entry" error=-2 profile="PROF" name="/srv/deleted/file" pid=1 comm="c" requested_mask="r" denied_mask="r" fsuid=1000 ouid=1000`,
			`apparmor="ALLOWED" operation="open" class="file" info="Failed name lookup - disconnected path" error=-13 profile="PROF" name="/srv/disconnected/file" pid=1 comm="c" requested_mask="r" denied_mask="r" fsuid=1000 ouid=1000`,
			`apparmor="ALLOWED" operation="open" class="file" info="Failed name lookup - deleted entry" error=-2 profile="PROF" name="/srv/both/file" pid=1 comm="c" requested_mask="r" denied_mask="r" fsuid=1000 ouid=1000` + "\n" + `type=AVC msg=audit(1.1:2): apparmor="ALLOWED" operation="open" class="file" info="Failed name lookup - disconnected path" error=-13 profile="PROF" name="/srv/both/other" pid=1 comm="c" requested_mask="r" denied_mask="r" fsuid=1000 ouid=1000`,
		}
		for i, sp := range special {
			prof := "binspecial" + lettersOf(i+1)
			add("special", fmt.Sprintf("type=AVC msg=audit(1.1:%d): ", 900+i)+strings.ReplaceAll(sp, "PROF", prof), prof)
		}
		var lb strings.Builder
		for _, b := range brecs {
			lb.WriteString(b.line + "\n")
		}
		lp := filepath.Join(e.Scratch, "bin-rules.log")
		_ = os.WriteFile(lp, []byte(lb.String()), 0o644)
		run := runAaLog(e, "-r", "-f", lp)
		blocks := map[string]string{}
		for _, blk := range regexp.MustCompile(`(?ms)^profile (\S+)[^\n]*\{\n.*?^\}`).FindAllStringSubmatch(run.Stdout, -1) {
			blocks[blk[1]] = blk[0]
		}
		nBin := 0
		for i, b := range brecs {
			id := "bin:" + b.cls + "|" + b.prof
			blk, ok := blocks[b.prof]
			if run.Exit != 0 || !ok {
				recs = append(recs, map[string]any{"ev": "meaning", "id": id, "text": tail(run.Stdout, 300), "reftext": "", "accepted": false, "diag": fmt.Sprintf("aa-log -r: exit %d, no profile block for %s", run.Exit, b.prof), "refaccepted": false, "samepolicy": false})
				classOf[id] = "bin|" + b.cls + "|noblock"
				continue
			}
			got := compileWhole(dir, fmt.Sprintf("w%d", i), blk)
			// the library's own rendering of the same record(s)
			var libText string
			func() {
				defer func() { _ = recover() }()
				for _, p := range logs.New(strings.NewReader(b.line+"\n"), "").ParseToProfiles() {
					p.Merge(nil)
					p.Sort()
					p.Format()
					libText = p.String()
				}
			}()
			want := compileWhole(dir, fmt.Sprintf("v%d", i), libText)
			rec := map[string]any{"ev": "meaning", "id": id, "text": blk, "reftext": libText, "accepted": got.OK, "diag": got.Diag, "refaccepted": want.OK, "samepolicy": want.OK && got.OK && want.Bin == got.Bin}
			// (the block must load whatever the library renders: header and flags are only printed here)
			classOf[id] = "bin|" + b.cls + "|" + diagClass(got.Diag)
			recs = append(recs, rec)
			nBin++
		}
		r.Coverage["aa_log_binary_blocks_compiled"] = nBin
	}
	r.Coverage["programs"] = len(recs)
	r.Coverage["disagreements_checked"] = len(recs)
	r.Sample(recs[0])
	r.Sample(recs[len(recs)-1])
	r.Assume = append(r.Assume, "apparmor_parser 3.0.8 with --kernel-features abi/3.0 is the reference; equal compiled policy = equal meaning",
		"the independent rendering (refRender) follows apparmor.d(5); a combination both renderings fail to compile is outside the language and not judged")
	runRuleTextTrace(e, r, recs, "C12")
}
