package main

// C06: the literal attachment the build writes into a profile header, and the exec rules an
// exec directive generates, match exactly the executables @{exec_path} matches under the
// shipped tunables. Oracle: the independent AARE matcher (aare.go) over the reference
// parser's expansion of the shipped tunables; equality is decided by witnesses in both
// directions (every alternative of one side, made concrete, must match the other side).
// Design level: Resolve.tla (reference substitution) - the generated preambles of MC_Resolve
// are replayed through the real userspace builder as well.

import (
	"encoding/json"
	"fmt"
	"os"
	"os/exec"
	"path/filepath"
	"regexp"
	"slices"
	"sort"
	"strings"
	"time"

	"github.com/roddhjav/apparmor.d/pkg/aa"
	"github.com/roddhjav/apparmor.d/pkg/paths"
	"github.com/roddhjav/apparmor.d/pkg/prebuild/builder"
)

func init() { checks["C06"] = checkC06 }

// expandBraces expands every {a,b} alternation (nested too) of a glob.
func expandBraces(p string, limit int) ([]string, bool) {
	i := strings.IndexByte(p, '{')
	if i < 0 {
		return []string{p}, true
	}
	// find the matching close
	depth := 0
	j := -1
	parts := []string{}
	last := i + 1
	for k := i; k < len(p); k++ {
		switch p[k] {
		case '\\':
			k++
		case '[':
			if e := strings.IndexByte(p[k:], ']'); e > 0 {
				k += e
			}
		case '{':
			depth++
		case '}':
			depth--
			if depth == 0 {
				j = k
			}
		case ',':
			if depth == 1 {
				parts = append(parts, p[last:k])
				last = k + 1
			}
		}
		if j >= 0 {
			break
		}
	}
	if j < 0 {
		return []string{p}, true
	}
	parts = append(parts, p[last:j])
	res := []string{}
	for _, part := range parts {
		sub, ok := expandBraces(p[:i]+part+p[j+1:], limit)
		if !ok {
			return nil, false
		}
		res = append(res, sub...)
		if len(res) > limit {
			return nil, false
		}
	}
	return res, true
}

// witnessOf makes a brace-free glob concrete.
func witnessOf(g string) string {
	var b strings.Builder
	for i := 0; i < len(g); i++ {
		c := g[i]
		switch {
		case c == '\\' && i+1 < len(g):
			b.WriteByte(g[i+1])
			i++
		case c == '*' && i+1 < len(g) && g[i+1] == '*':
			b.WriteString("w/w")
			i++
		case c == '*':
			b.WriteString("w")
		case c == '?':
			b.WriteString("w")
		case c == '[':
			e := strings.IndexByte(g[i:], ']')
			if e < 0 {
				b.WriteByte(c)
				break
			}
			cls := g[i+1 : i+e]
			if strings.HasPrefix(cls, "^") || strings.HasPrefix(cls, "!") {
				b.WriteString("w")
			} else if len(cls) > 0 {
				b.WriteByte(cls[0])
			}
			i += e
		case c == '"':
		default:
			b.WriteByte(c)
		}
	}
	return reSlashes.ReplaceAllString(b.String(), "/")
}

// witnesses of a pattern with variables: all alternatives, made concrete.
func (env *aareEnv) witnesses(pattern string, limit int) ([]string, error) {
	exps, err := env.expandVars(strings.Trim(pattern, "\""), 0)
	if err != nil {
		return nil, err
	}
	res := []string{}
	for _, x := range exps {
		bs, ok := expandBraces(x, limit)
		if !ok {
			// too many alternatives: take the first and the last branch of every brace group
			bs = sampleBraces(x)
		}
		for _, g := range bs {
			res = append(res, witnessOf(g))
		}
		if len(res) > 4*limit {
			break
		}
	}
	return res, nil
}

func sampleBraces(p string) []string {
	first, last := p, p
	for strings.Contains(first, "{") {
		bs, _ := expandBraces1(first, true)
		first = bs
	}
	for strings.Contains(last, "{") {
		bs, _ := expandBraces1(last, false)
		last = bs
	}
	return []string{first, last}
}

// expandBraces1 replaces the first brace group by its first (or last) alternative.
func expandBraces1(p string, first bool) (string, bool) {
	all, ok := expandBracesOnce(p)
	if !ok || len(all) == 0 {
		return strings.NewReplacer("{", "", "}", "").Replace(p), false
	}
	if first {
		return all[0], true
	}
	return all[len(all)-1], true
}

func expandBracesOnce(p string) ([]string, bool) {
	i := strings.IndexByte(p, '{')
	if i < 0 {
		return nil, false
	}
	depth, j, last := 0, -1, i+1
	parts := []string{}
	for k := i; k < len(p) && j < 0; k++ {
		switch p[k] {
		case '{':
			depth++
		case '}':
			depth--
			if depth == 0 {
				j = k
			}
		case ',':
			if depth == 1 {
				parts = append(parts, p[last:k])
				last = k + 1
			}
		}
	}
	if j < 0 {
		return nil, false
	}
	parts = append(parts, p[last:j])
	res := []string{}
	for _, part := range parts {
		res = append(res, p[:i]+part+p[j+1:])
	}
	return res, true
}

// withLocals returns an environment extended with the variables a preamble defines.
func (env *aareEnv) withLocals(items []Item) *aareEnv {
	n := &aareEnv{vars: map[string][]string{}, memo: map[string]*regexp.Regexp{}}
	for k, v := range env.vars {
		n.vars[k] = v
	}
	for _, it := range items {
		if it.T != "var" || it.Depth != 0 {
			continue
		}
		name := strings.TrimSuffix(strings.TrimPrefix(it.VarName, "@{"), "}")
		vals := append([]string{}, it.Values...)
		// the reference parser (3.0.8) knows no trailing comment on a variable line: every word after the
		// values is one more value. Words that can match an executable (paths, variables) are kept as such.
		for _, w := range strings.Fields(it.Trail) {
			if strings.HasPrefix(w, "/") || strings.HasPrefix(w, "@{") {
				vals = append(vals, w)
			}
		}
		if it.VarOp == "=" {
			n.vars[name] = vals
		} else {
			n.vars[name] = append(append([]string{}, n.vars[name]...), vals...)
		}
	}
	return n
}

type langDiff struct {
	Lost  []string // matched by the left side, not by the right
	Added []string
}

// compareLang: do the patterns of a and b (over env) match the same paths? (witness based)
func compareLang(envA *aareEnv, a []string, envB *aareEnv, b []string) (langDiff, error) {
	d := langDiff{Lost: []string{}, Added: []string{}}
	matchAny := func(env *aareEnv, pats []string, w string) (bool, error) {
		for _, p := range pats {
			ok, err := env.Covers(p, w)
			if err != nil {
				return false, err
			}
			if ok {
				return true, nil
			}
		}
		return false, nil
	}
	for _, p := range a {
		ws, err := envA.witnesses(p, 3000)
		if err != nil {
			return d, err
		}
		for _, w := range ws {
			ok, err := matchAny(envB, b, w)
			if err != nil {
				return d, err
			}
			if !ok && len(d.Lost) < 5 {
				d.Lost = append(d.Lost, w)
			}
		}
	}
	for _, p := range b {
		ws, err := envB.witnesses(p, 3000)
		if err != nil {
			return d, err
		}
		for _, w := range ws {
			ok, err := matchAny(envA, a, w)
			if err != nil {
				return d, err
			}
			if !ok && len(d.Added) < 5 {
				d.Added = append(d.Added, w)
			}
		}
	}
	return d, nil
}

func checkC06(e *Env, r *Report) {
	f := famSetup(e, r)
	if f == nil {
		return
	}
	dists := Dists
	if e.Tier != "thorough" {
		dists = []string{Dists[int(e.Seed)%len(Dists)], "arch", "opensuse"}
	}
	recs := []any{}
	seen := map[string]bool{}
	srcIdx := sourceIndex(f.aug)
	nProfiles, nExec := 0, 0
	nParser, nParserSkipped := 0, 0
	for _, d := range dists {
		c := DefaultCfg(d)
		c.Full = true
		if c.Ver == "4.1" {
			c.Ver = "4.0" // 4.1 builds drop tunables/multiarch.d/base (upstreamed): use the build that ships every tunable
		}
		b := e.RunPrebuild(c, BuildOpts{Src: f.aug, Tag: "aug", NoCache: true})
		if b.Err != nil {
			r.Fatal = b.Err.Error()
			return
		}
		env, err := loadTunables(e, b.Out)
		if err != nil {
			r.Fatal = err.Error()
			return
		}
		differing := differingTunables(env)
		ov, err := tunablesOverlay(e, b.Out)
		if err != nil {
			r.Fatal = err.Error()
			return
		}
		root := filepath.Join(b.Out, "apparmor.d")
		for _, fn := range listFiles(root) {
			if !isProfilePath(fn) {
				continue
			}
			sp, ok := srcIdx[strings.TrimSuffix(fn, ".apparmor.d")]
			if !ok {
				continue
			}
			st, _ := os.ReadFile(sp)
			sItems := Scan(string(st))
			usesExecPath := false
			for _, h := range Headers(sItems) {
				if h.Depth == 0 && len(h.Att) == 1 && h.Att[0] == "@{exec_path}" {
					usesExecPath = true
				}
			}
			if !usesExecPath {
				continue
			}
			bt, _ := os.ReadFile(filepath.Join(root, fn))
			var built []string
			for _, h := range Headers(Scan(string(bt))) {
				if h.Depth == 0 {
					built = h.Att
					break
				}
			}
			key := shaS(string(st)) + "|" + strings.Join(built, " ") + "|" + shaS(fmt.Sprint(env.vars["bin"], env.vars["lib"], env.vars["HOME"], env.vars["multiarch"], env.vars["arch"]))
			nProfiles++
			if seen[key] {
				continue
			}
			seen[key] = true
			local := env.withLocals(sItems)
			diff, err := compareLang(local, []string{"@{exec_path}"}, env, built)
			// the same question put to the reference parser itself: the expression it compiles for the attachment
			// of a stub profile with the variable, and with the literal the build wrote, over the built tunables
			if err == nil {
				if pl, pa, perr := parserAttachDiff(e, ov, sItems, built, local, env); perr != nil {
					nParserSkipped++
				} else {
					nParser++
					for _, w := range pl {
						if !slices.Contains(diff.Lost, w) && len(diff.Lost) < 5 {
							diff.Lost = append(diff.Lost, w)
						}
					}
					for _, w := range pa {
						if !slices.Contains(diff.Added, w) && len(diff.Added) < 5 {
							diff.Added = append(diff.Added, w)
						}
					}
				}
			}
			rec := map[string]any{"ev": "attach", "id": fmt.Sprintf("%s|%s|%s", causeOf(local, differing), fn, d), "file": fn, "built": strings.Join(built, " "), "lost": diff.Lost, "added": diff.Added, "error": ""}
			if err != nil {
				rec["error"] = err.Error()
			}
			recs = append(recs, rec)
		}
		// exec directives: generated rules against the named profiles' @{exec_path}
		evs, err := readEvents(b.Trace)
		if err != nil {
			r.Fatal = err.Error()
			return
		}
		for _, ev := range evs {
			if ev["ev"] != "directive" || ev["name"] != "exec" {
				continue
			}
			nExec++
			_, args, _ := directiveArgs(str(ev["raw"]))
			targets := args
			if len(args) > 0 {
				switch args[0] {
				case "P", "U", "p", "u", "PU", "pu":
					targets = args[1:]
				}
			}
			gen := []string{}
			for _, it := range insertedItems(str(ev["before"]), str(ev["after"])) {
				if it.T == "exec" || it.T == "rule" {
					gen = append(gen, it.Path)
				}
			}
			host := relBuildName(str(ev["file"]))
			lost, added := []string{}, []string{}
			errs := ""
			for _, t := range targets {
				sp, ok := srcIdx[t]
				if !ok {
					continue
				}
				st, _ := os.ReadFile(sp)
				local := env.withLocals(Scan(string(st)))
				ws, err := local.witnesses("@{exec_path}", 3000)
				if err != nil {
					errs = err.Error()
					continue
				}
				for _, w := range ws {
					m := false
					for _, g := range gen {
						if ok, _ := env.Covers(g, w); ok {
							m = true
						}
					}
					if !m && len(lost) < 5 {
						lost = append(lost, t+":"+w)
					}
				}
			}
			// nothing added: every generated rule path is matched by some target
			for _, g := range gen {
				ws, err := env.witnesses(g, 3000)
				if err != nil {
					errs = err.Error()
					continue
				}
				for _, w := range ws {
					m := false
					for _, t := range targets {
						if sp, ok := srcIdx[t]; ok {
							st, _ := os.ReadFile(sp)
							local := env.withLocals(Scan(string(st)))
							if ok, _ := local.Covers("@{exec_path}", w); ok {
								m = true
							}
						}
					}
					if !m && len(added) < 5 {
						added = append(added, w)
					}
				}
			}
			cause := map[string]bool{}
			for _, t := range targets {
				if sp, ok := srcIdx[t]; ok {
					st, _ := os.ReadFile(sp)
					for _, c := range strings.Split(strings.TrimPrefix(causeOf(env.withLocals(Scan(string(st))), differing), "tunable:"), ",") {
						if c != "" && c != "resolver" {
							cause[c] = true
						}
					}
				}
			}
			cs := []string{}
			for c := range cause {
				cs = append(cs, c)
			}
			sort.Strings(cs)
			causeS := "resolver"
			if len(cs) > 0 {
				causeS = "tunable:" + strings.Join(cs, ",")
			}
			recs = append(recs, map[string]any{"ev": "attach", "id": fmt.Sprintf("%s|%s|exec %s|%s", causeS, host, strings.Join(targets, " "), d), "file": host, "built": strings.Join(gen, " "), "lost": lost, "added": added, "error": errs})
		}
		b.Drop()
		_ = os.RemoveAll(ov)
	}
	r.Coverage["profiles_with_exec_path"] = nProfiles
	r.Coverage["attachments_compiled_by_reference_parser"] = nParser
	r.Coverage["attachments_reference_parser_skipped"] = nParserSkipped
	r.Coverage["exec_directives"] = nExec
	// replay of generated preambles (MC_Resolve) through the real userspace builder
	res, err := e.RunTLC(TLCOpts{Module: "MC_Resolve", Workers: 12, Timeout: 20 * time.Minute, Env: map[string]string{"VERIF_RESOLVE_LEN": "3"}})
	if err != nil {
		r.Fatal = err.Error()
		return
	}
	r.AddTLC(res)
	nGen := 0
	if res.Healthy() {
		us := builder.Builders["userspace"]
		for _, p := range res.PrintsWithPrefix("BEH") {
			var bb struct {
				Pre    []rItem `json:"pre"`
				Judged bool    `json:"judged"`
			}
			if json.Unmarshal([]byte(p), &bb) != nil || !bb.Judged {
				continue
			}
			hasExec := false
			for _, it := range bb.Pre {
				if it.K == "var" && it.Name == "exec_path" && it.Define {
					hasExec = true
				}
			}
			if !hasExec {
				continue
			}
			text := renderPreamble(bb.Pre, true)
			var out string
			var aerr error
			func() {
				defer func() {
					if pn := recover(); pn != nil {
						aerr = fmt.Errorf("panic: %v", pn)
					}
				}()
				out, aerr = us.Apply(&builder.Option{Name: "vgen", File: paths.New("/nonexistent/apparmor.d/vgen")}, text)
			}()
			if aerr != nil {
				continue // error cases are C13's business
			}
			var built []string
			for _, h := range Headers(Scan(out)) {
				built = h.Att
				break
			}
			empty := &aareEnv{vars: map[string][]string{}, memo: map[string]*regexp.Regexp{}}
			local := empty.withLocals(Scan(text))
			diff, err := compareLang(local, []string{"@{exec_path}"}, empty, built)
			rec := map[string]any{"ev": "attach", "id": "gen|" + compactPre(bb.Pre), "file": "gen", "built": strings.Join(built, " "), "lost": diff.Lost, "added": diff.Added, "error": ""}
			if err != nil {
				rec["error"] = err.Error()
			}
			recs = append(recs, rec)
			nGen++
		}
	}
	r.Coverage["generated_preambles"] = nGen
	r.Coverage["trace_events"] = len(recs)
	if len(recs) == 0 {
		r.Fatal = "nothing compared"
		return
	}
	r.Sample(recs[0])
	tp := filepath.Join(e.Scratch, "attach.ndjson")
	if err := writeNDJSON(tp, recs); err != nil {
		r.Fatal = err.Error()
		return
	}
	tr, err := e.RunTLC(TLCOpts{Module: "ResolveTrace", Workers: 1, Timeout: 30 * time.Minute, Env: map[string]string{"VERIF_TRACE": tp}})
	if err != nil {
		r.Fatal = err.Error()
		return
	}
	r.AddTLC(tr)
	if !tr.Healthy() {
		r.Fatal = "ResolveTrace did not complete: " + tr.Err + tail(tr.Out, 1200)
		return
	}
	r.Traces += len(recs)
	for _, p := range tr.PrintsWithPrefix("VIOL") {
		var x struct {
			P    string          `json:"p"`
			ID   string          `json:"id"`
			What string          `json:"what"`
			D    json.RawMessage `json:"d"`
		}
		if err := json.Unmarshal([]byte(p), &x); err != nil || x.P != "C06" {
			continue
		}
		parts := strings.Split(x.ID, "|")
		key := x.ID
		if parts[0] != "gen" && len(parts) > 1 {
			key = strings.Join(parts[:len(parts)-1], "|") // without the distribution
		}
		r.Violate("C06|"+key+"|"+shortWhat(x.What), x.What+" ["+parts[len(parts)-1]+"] "+tail(string(x.D), 300), map[string]any{"id": x.ID, "detail": x.D})
	}
	sort.Strings(r.Drift)
	r.Assume = append(r.Assume, "language equality is decided by witnesses: every alternative of each side, made concrete, must match the other side (a reported difference is a real path; exotic glob-only differences can be missed)")
}

// differingTunables: the built-in variables (aa.DefaultTunables) whose language differs from
// the shipped tunable of the same name in this build.
func differingTunables(env *aareEnv) map[string]bool {
	res := map[string]bool{}
	bi := &aareEnv{vars: map[string][]string{}, memo: map[string]*regexp.Regexp{}}
	for _, v := range aa.DefaultTunables().Preamble.GetVariables() {
		bi.vars[v.Name] = append([]string{}, v.Values...)
	}
	for name := range bi.vars {
		if _, ok := env.vars[name]; !ok {
			continue
		}
		d, err := compareLang(bi, []string{"@{" + name + "}"}, env, []string{"@{" + name + "}"})
		if err != nil || len(d.Lost) > 0 || len(d.Added) > 0 {
			res[name] = true
		}
	}
	return res
}

var reRef = regexp.MustCompile(`@\{([^{}]+)\}`)

// causeOf: the differing tunables the profile's @{exec_path} depends on (transitively).
func causeOf(local *aareEnv, differing map[string]bool) string {
	seen := map[string]bool{}
	var visit func(name string)
	visit = func(name string) {
		if seen[name] {
			return
		}
		seen[name] = true
		for _, v := range local.vars[name] {
			for _, m := range reRef.FindAllStringSubmatch(v, -1) {
				visit(m[1])
			}
		}
	}
	visit("exec_path")
	// tunables are already expanded in the environment: dependencies between tunables come from the built-in table
	for _, v := range aa.DefaultTunables().Preamble.GetVariables() {
		if seen[v.Name] {
			for _, val := range v.Values {
				for _, m := range reRef.FindAllStringSubmatch(val, -1) {
					seen[m[1]] = true
				}
			}
		}
	}
	cs := []string{}
	for n := range seen {
		if differing[n] {
			cs = append(cs, n)
		}
	}
	sort.Strings(cs)
	if len(cs) == 0 {
		return "resolver"
	}
	return "tunable:" + strings.Join(cs, ",")
}

var reAareLine = regexp.MustCompile(`(?m)^aare: .*?   ->   (.*)$`)

// parserAttachment: the expression apparmor_parser compiles for the attachment of a stub profile (policy
// directory ov, preamble = the tunables plus the variable lines of the source profile).
func parserAttachment(e *Env, ov string, items []Item, att string) (*regexp.Regexp, error) {
	var sb strings.Builder
	sb.WriteString("abi <abi/3.0>,\ninclude <tunables/global>\n")
	for _, it := range items {
		if it.T == "var" && it.Depth == 0 {
			sb.WriteString(strings.TrimSpace(it.Raw) + "\n")
		}
	}
	sb.WriteString("profile vstub " + att + " {\n}\n")
	f, err := os.CreateTemp(ov, "vstub-")
	if err != nil {
		return nil, err
	}
	name := f.Name()
	_, _ = f.WriteString(sb.String())
	_ = f.Close()
	defer os.Remove(name)
	cmd := exec.Command("/usr/sbin/apparmor_parser", "-Q", "-K", "-D", "rule-exprs", "-b", ov, "-I", ov, name)
	cmd.Dir = ov
	out, err := cmd.CombinedOutput()
	if err != nil {
		return nil, fmt.Errorf("%v %s", err, tail(string(out), 200))
	}
	m := reAareLine.FindStringSubmatch(string(out))
	if m == nil {
		return nil, fmt.Errorf("no expression in the parser's output")
	}
	return regexp.Compile("^(?:" + m[1] + ")$")
}

func parserAttachDiff(e *Env, ov string, items []Item, built []string, local, env *aareEnv) (lost, added []string, err error) {
	if len(built) != 1 || strings.ContainsAny(built[0], "\"") {
		return nil, nil, fmt.Errorf("not a single unquoted attachment")
	}
	reA, err := parserAttachment(e, ov, items, "@{exec_path}")
	if err != nil {
		return nil, nil, err
	}
	reB, err := parserAttachment(e, ov, items, built[0])
	if err != nil {
		return nil, nil, err
	}
	ws, err := local.witnesses("@{exec_path}", 3000)
	if err != nil {
		return nil, nil, err
	}
	wb, err := env.witnesses(built[0], 3000)
	if err != nil {
		return nil, nil, err
	}
	for _, w := range append(ws, wb...) {
		a, b := reA.MatchString(w), reB.MatchString(w)
		if a && !b && len(lost) < 5 && !slices.Contains(lost, w) {
			lost = append(lost, w)
		}
		if b && !a && len(added) < 5 && !slices.Contains(added, w) {
			added = append(added, w)
		}
	}
	return lost, added, nil
}
