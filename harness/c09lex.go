package main

// Character-level model of rule text (spec/RuleLex.tla): MC_RuleLex enumerates file rules
// whose paths, targets and comments exercise every lexical feature, the harness builds the
// REAL aa.File, prints it with the real templates, parses the text back with the real parser,
// prints again, and RuleLexTrace compares rule / model / real.

import (
	"encoding/json"
	"fmt"
	"math/rand"
	"path/filepath"
	"sort"
	"strings"
	"time"

	"github.com/roddhjav/apparmor.d/pkg/aa"
)

var lexChars = map[string]string{
	"a": "k", "s": " ", "q": `"`, "c": ",", "h": "#", "e": "=", "o(": "(", "c)": ")", "o{": "{", "c}": "}", "o[": "[", "c]": "]",
	"sl": "/", "at": "@", "bs": `\`, "nl": "\n", "u": "é", "st": "*", "dl": "$", "pc": "%",
	"owner": "owner", "audit": "audit", "deny": "deny", "allow": "allow", "acc": "rw", "arrow": "->", "tgt": "tgtprofile",
}

func lexConc(cs []string) string {
	var b strings.Builder
	for _, c := range cs {
		if v, ok := lexChars[c]; ok {
			b.WriteString(v)
		} else {
			b.WriteString("?")
		}
	}
	return b.String()
}

var lexToks = func() []lineTok {
	res := []lineTok{}
	for a, t := range lexChars {
		res = append(res, lineTok{t, a})
	}
	sort.Slice(res, func(i, j int) bool {
		if len(res[i].text) != len(res[j].text) {
			return len(res[i].text) > len(res[j].text)
		}
		return res[i].text < res[j].text
	})
	return res
}()

func lexAbs(s string) []string {
	res := []string{}
	for len(s) > 0 {
		hit := false
		for _, t := range lexToks {
			if strings.HasPrefix(s, t.text) {
				res = append(res, t.abs)
				s = s[len(t.text):]
				hit = true
				break
			}
		}
		if !hit {
			res = append(res, fmt.Sprintf("?%02x", s[0]))
			s = s[1:]
		}
	}
	return res
}

type lexRule struct {
	Qual    []string `json:"qual"`
	Owner   bool     `json:"owner"`
	Path    []string `json:"path"`
	Target  []string `json:"target"`
	Comment []string `json:"comment"`
}

type lexBeh struct {
	Mode  string    `json:"mode"`
	Rules []lexRule `json:"rules"`
	Text  []string  `json:"text"`
}

func (lr lexRule) real() *aa.File {
	f := &aa.File{Owner: lr.Owner, Path: lexConc(lr.Path), Access: []string{"r", "w"}, Target: lexConc(lr.Target)}
	f.Comment = lexConc(lr.Comment)
	for _, w := range lr.Qual {
		if w == "audit" {
			f.Audit = true
		} else {
			f.AccessType = w
		}
	}
	return f
}

func lexAbsFile(x aa.Rule) map[string]any {
	f, ok := x.(*aa.File)
	if !ok {
		return map[string]any{"err": fmt.Sprintf("%T", x)}
	}
	acc := lexAbs(strings.Join(f.Access, ""))
	return map[string]any{"qual": map[string]any{"audit": f.Audit, "access": f.AccessType}, "owner": f.Owner, "path": lexAbs(f.Path),
		"access": acc, "target": lexAbs(f.Target), "comment": lexAbs(f.Comment)}
}

// lexBehaviours runs MC_RuleLex (strict design check + generation) and returns the behaviours.
func lexBehaviours(e *Env, r *Report) []lexBeh {
	plen := "2"
	if e.Tier == "thorough" {
		plen = "3"
	}
	st, err := e.RunTLC(TLCOpts{Module: "MC_RuleLex", Cfg: "MC_RuleLex_strict.cfg", Workers: 8, Timeout: 30 * time.Minute, Env: map[string]string{"VERIF_PATH_LEN": plen}})
	if err != nil {
		r.Fatal = err.Error()
		return nil
	}
	r.AddTLC(st)
	if st.InvViol != "" {
		r.Drift = append(r.Drift, "RuleLex model violates "+st.InvViol+" at design level (the model, not the code, is judged here)")
	} else if !st.Healthy() {
		r.Fatal = "MC_RuleLex (strict) did not complete: " + st.Err
		return nil
	}
	gen, err := e.RunTLC(TLCOpts{Module: "MC_RuleLex", Workers: 4, Timeout: 30 * time.Minute, Env: map[string]string{"VERIF_PATH_LEN": plen}})
	if err != nil {
		r.Fatal = err.Error()
		return nil
	}
	r.AddTLC(gen)
	if !gen.Healthy() {
		r.Fatal = "MC_RuleLex did not complete: " + gen.Err
		return nil
	}
	behs := []lexBeh{}
	for _, p := range gen.PrintsWithPrefix("BEHX") {
		var b lexBeh
		if err := json.Unmarshal([]byte(p), &b); err != nil {
			r.Fatal = "bad BEHX: " + err.Error()
			return nil
		}
		behs = append(behs, b)
	}
	if len(behs) == 0 {
		r.Fatal = "no rule-text behaviours emitted"
		return nil
	}
	sort.Slice(behs, func(i, j int) bool { return strings.Join(behs[i].Text, " ") < strings.Join(behs[j].Text, " ") })
	r.Coverage["lex_behaviours"] = len(behs)
	return behs
}

func lexModel(e *Env, r *Report) {
	behs := lexBehaviours(e, r)
	if behs == nil {
		return
	}
	if e.Tier != "thorough" && len(behs) > 4000 {
		rand.New(rand.NewSource(e.Seed)).Shuffle(len(behs), func(i, j int) { behs[i], behs[j] = behs[j], behs[i] })
		behs = behs[:4000]
	}
	recs := []any{}
	// history: the parser keeps package-level state (inHeader); whole files - with and without a preamble -
	// are parsed in between the rules, as a formatter run over a directory does
	primers := []string{
		"profile vgen-nopre /usr/bin/vgen-nopre {\n  include <abstractions/base>\n\n  /etc/x r,\n}\n",
		"abi <abi/4.0>,\n\ninclude <tunables/global>\n\n@{exec_path} = @{bin}/vgen-pre\nprofile vgen-pre @{exec_path} {\n  include <abstractions/base>\n\n  /etc/x r,\n}\n",
		"@{exec_path} = @{bin}/vgen-bad @{undefined\nprofile vgen-bad {\n}\n",
	}
	one := func(b lexBeh) map[string]any {
		rs := aa.Rules{}
		for _, lr := range b.Rules {
			rs = append(rs, lr.real())
		}
		texts := []string{}
		crashed, perr := false, ""
		got := []any{}
		text2 := ""
		func() {
			defer func() {
				if p := recover(); p != nil {
					crashed = true
					perr = fmt.Sprint(p)
				}
			}()
			for _, x := range rs {
				texts = append(texts, x.String())
			}
			pr, _, err := aa.ParseRules(strings.Join(texts, "\n") + "\n\n")
			if err != nil {
				perr = err.Error()
				return
			}
			again := []string{}
			for _, para := range pr {
				for _, x := range para {
					got = append(got, lexAbsFile(x))
					again = append(again, x.String())
				}
			}
			text2 = strings.Join(again, "\n")
		}()
		text1 := strings.Join(texts, "\n")
		return map[string]any{"ev": "lex", "id": b.Mode + "|" + text1, "mode": b.Mode, "rules": b.Rules, "text": b.Text,
			"rtext": lexAbs(text1), "crashed": crashed, "err": perr, "got": got, "text2": lexAbs(text2)}
	}
	prime := func(k int) {
		defer func() { _ = recover() }()
		_, _ = (&aa.AppArmorProfileFile{}).Parse(primers[k%len(primers)])
	}
	firstJSON := make([]string, len(behs))
	for bi, b := range behs {
		if bi%40 == 0 {
			prime(bi / 40)
		}
		rec := one(b)
		jb, _ := json.Marshal(rec)
		firstJSON[bi] = string(jb)
		recs = append(recs, rec)
	}
	// second pass in the opposite order (another history): a rule must give the same result whatever
	// was printed or parsed before it; only results that differ are added (and then judged like any other)
	nHist := 0
	for bi := len(behs) - 1; bi >= 0; bi-- {
		if bi%40 == 7 {
			prime(bi/40 + 1)
		}
		rec := one(behs[bi])
		jb, _ := json.Marshal(rec)
		if string(jb) != firstJSON[bi] {
			rec["id"] = fmt.Sprint(rec["id"]) + "|second pass, reverse order"
			recs = append(recs, rec)
			nHist++
		}
	}
	r.Coverage["lex_results_depending_on_history"] = nHist
	r.Coverage["lex_round_trips"] = len(recs)
	r.Sample(recs[len(recs)/2])
	tp := filepath.Join(e.Scratch, "rulelex.ndjson")
	if err := writeNDJSON(tp, recs); err != nil {
		r.Fatal = err.Error()
		return
	}
	tr, err := e.RunTLC(TLCOpts{Module: "RuleLexTrace", Workers: 1, Timeout: 60 * time.Minute, Env: map[string]string{"VERIF_TRACE": tp}})
	if err != nil {
		r.Fatal = err.Error()
		return
	}
	r.AddTLC(tr)
	if !tr.Healthy() {
		r.Fatal = "RuleLexTrace did not complete: " + tr.Err + tail(tr.Out, 1500)
		return
	}
	r.Traces += len(recs)
	nd := 0
	for _, p := range tr.PrintsWithPrefix("DRIFT") {
		if nd < 3 {
			r.Drift = append(r.Drift, tail(p, 400))
		}
		nd++
	}
	r.Coverage["lex_model_vs_real_disagreements"] = nd
	for _, p := range tr.PrintsWithPrefix("VIOL") {
		var x struct {
			P    string          `json:"p"`
			ID   string          `json:"id"`
			What string          `json:"what"`
			D    json.RawMessage `json:"d"`
		}
		if err := json.Unmarshal([]byte(p), &x); err != nil {
			r.Fatal = "bad VIOL"
			return
		}
		r.Violate("C09|lex|"+x.ID+"|"+shortWhat(x.What), x.What, map[string]any{"id": x.ID, "detail": x.D})
	}
}
