package main

import (
	"os/exec"
)

func execCmd(name string, args ...string) (string, error) {
	out, err := exec.Command(name, args...).CombinedOutput()
	return string(out), err
}
