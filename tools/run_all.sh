#!/bin/bash
# usage: run_all.sh [tier] [seed]  -> runs every registered check, prints one line per check
TIER="${1:-quick}"; export VERIF_SEED="${2:-1}"
cd "$(dirname "$0")/.."
for id in $(python3 -c "import json;print(' '.join(c['property_id'] for c in json.load(open('MANIFEST.json'))['checks']))"); do
  s=$(date +%s)
  out=$(./check $id $TIER 2>&1); rc=$?
  e=$(date +%s)
  echo "$id rc=$rc $((e-s))s $(echo "$out" | grep -cE '^VIOLATION') viol, $(echo "$out" | grep -cE '^KNOWN-FINDING') known :: $(echo "$out" | grep -E '^(OK|INCONCLUSIVE)' | head -1 | cut -c1-120)"
done
