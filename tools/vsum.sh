#!/bin/bash
# summarise check output: counts of violations grouped by the first two key components
grep -E "^(VIOLATION|OK|INCONCLUSIVE|KNOWN)" | sed -E 's/replay=[^ ]* //' | awk '/^VIOLATION/{split($3,a,"|"); split(a[2],b,":"); k=a[1]"|"b[1]"|"a[length(a)]; c[k]++; next} {print substr($0,1,200)} END{for(k in c) print c[k], k}' | sort -rn | head -${1:-25}
