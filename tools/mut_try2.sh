#!/bin/bash
# usage: mut_try2.sh <patch.diff> <Cnn> [tier] [worktree]
# Runs a check against a seeded change WITHOUT touching /repo or /verif/evidence: the patch is applied in a
# scratch worktree, the harness is built against that worktree, evidence goes to a scratch root.
P="$(realpath "$1")"; ID="$2"; TIER="${3:-quick}"; W="${4:-/tmp/mutwt}"
export GOFLAGS=-mod=mod GOPROXY=off GOSUMDB=off GOTOOLCHAIN=local
if [ ! -d "$W" ]; then git -C /repo worktree add -q --detach "$W" HEAD || exit 2; fi
cd "$W" && git checkout -q --detach "$(git -C /repo rev-parse HEAD)" 2>/dev/null; git checkout -q -- . ; git clean -fdq >/dev/null 2>&1
git apply "$P" 2>/dev/null || git apply --3way "$P" >/dev/null 2>&1 || { git reset -q --hard HEAD; echo "patch does not apply"; exit 2; }
git reset -q
R=$(mktemp -d /tmp/mutroot.XXXX); H=$(mktemp -d /tmp/muth.XXXX)
cp -a /verif/spec /verif/known_findings.json "$R/"; mkdir -p "$R/evidence"
cp -a /verif/harness/. "$H/"; sed -i "s#=> /repo#=> $W#" "$H/go.mod"
(cd "$H" && go build -tags verif -o "$H/vcheck" .) > "$H/build.log" 2>&1 || { echo "harness build failed against the patched tree:"; tail -5 "$H/build.log"; rm -rf "$R" "$H"; cd "$W"; git checkout -q -- .; git clean -fdq; exit 2; }
VERIF_REPO="$W" VERIF_ROOT="$R" "$H/vcheck" "$ID" "$TIER" > "$H/out.txt" 2>&1
rc=$?
grep -E "^(VIOLATION|OK|INCONCLUSIVE|KNOWN|DRIFT)" "$H/out.txt" | grep -v "^KNOWN" | sed -E 's/replay=[^ ]* //' | cut -c1-240 | head -${LINES_MAX:-4}
rm -rf "$R" "$H"; cd "$W" && git checkout -q -- . && git clean -fdq >/dev/null 2>&1
echo "check exit: $rc"
