#!/usr/bin/env python3
"""Renders seeded/SUMMARY.md from seeded/<name>/meta.json, seeded/detection.tsv (tools/detect_all.sh) and
seeded/NOTES.json (hand-written remarks on changes that are not caught, superseded or ported)."""
import json, os, glob, collections
V = os.path.dirname(os.path.dirname(os.path.abspath(__file__)))
det = {}
p = os.path.join(V, 'seeded', 'detection.tsv')
if os.path.exists(p):
    for l in open(p):
        f = l.rstrip('\n').split('\t')
        if len(f) >= 5:
            det[f[0]] = f
notes = {}
p = os.path.join(V, 'seeded', 'NOTES.json')
if os.path.exists(p):
    notes = json.load(open(p))
rows = []
per_round = collections.defaultdict(lambda: collections.Counter())
for d in sorted(glob.glob(os.path.join(V, 'seeded', 'C[0-9][0-9]-r*v*'))):
    n = os.path.basename(d)
    try:
        m = json.load(open(os.path.join(d, 'meta.json')))
    except Exception:
        m = {}
    rnd = n.split('-r')[1].split('v')[0]
    f = det.get(n, [n, n[:3], '-', 'not run', '-'])
    per_round[rnd][f[3]] += 1
    summ = (m.get('summary') or '').replace('\n', ' ').replace('|', '/')[:170]
    verdict = {'caught': '**caught** (%s)' % f[2], 'missed': 'missed'}.get(f[3], f[3])
    rows.append('| %s | %s | %s | %s | `%s` |' % (n, f[1], summ, verdict, f[4].replace('`', "'")))
out = ['# Seeded changes and the checks that catch them', '',
       'Each row: a confirmed change (its `meta.json` says what it needs in order to manifest and how it was confirmed:',
       'demonstration passes on the clean tree, fails with the change; the tree builds and the 499 baseline tests pass',
       'with it), and the verdict of the check of its property on the current tree with the change applied in a scratch',
       'worktree (`tools/detect_all.sh`, i.e. `tools/mut_try2.sh seeded/<name>/patch.diff <property> quick`, then `thorough`',
       'when the quick tier exits 0), with the first violation it printed. Names are `<property>-r<round>v<variant>`;',
       'round `p` holds changes ported after a repair of the repository made the original patch inapplicable.', '']
out += ['| round | changes | caught | missed | other |', '|---|---|---|---|---|']
tot = collections.Counter()
for r in sorted(per_round):
    c = per_round[r]
    n = sum(c.values())
    out.append('| %s | %d | %d | %d | %d |' % (r, n, c['caught'], c['missed'], n - c['caught'] - c['missed']))
    tot.update(c)
n = sum(tot.values())
out.append('| all | %d | %d | %d | %d |' % (n, tot['caught'], tot['missed'], n - tot['caught'] - tot['missed']))
out += ['', '| change | property | mechanism (from meta.json) | check | first violation |', '|---|---|---|---|---|'] + rows
if notes:
    out += ['', '## Remarks', '']
    for k in sorted(notes):
        out.append('* **%s**: %s' % (k, notes[k]))
open(os.path.join(V, 'seeded', 'SUMMARY.md'), 'w').write('\n'.join(out) + '\n')
print('rows', len(rows), dict(tot))

# ---------------------------------------------------------------- behaviour-preserving changes
bp = os.path.join(V, 'seeded', 'benign_results.tsv')
if os.path.exists(bp):
    per = collections.defaultdict(dict)
    first = {}
    for l in open(bp):
        f = l.rstrip('\n').split('\t')
        if len(f) >= 4:
            per[f[0]][f[1]] = f[2]
            if f[2] != '0':
                first.setdefault((f[0], f[1]), f[3])
    out = ['# Behaviour-preserving changes (false-alarm test)', '',
           'Changes written by sub-agents that were given all 19 property statements and asked for realistic commits that',
           'keep every one of them (`seeded/benign/<name>/patch.diff`, `meta.json`). Every quick check is run on each with the',
           'change applied in a scratch worktree (`tools/benign_all.sh`); this table is the run on the final machinery.', '',
           '| change | what it is | checks with exit 0 | exit 1 (alarm) | exit 2 (inconclusive) |', '|---|---|---|---|---|']
    for n in sorted(per):
        try:
            m = json.load(open(os.path.join(V, 'seeded', 'benign', n, 'meta.json')))
        except Exception:
            m = {}
        summ = (m.get('summary') or '').replace('\n', ' ').replace('|', '/')[:200]
        res = per[n]
        ok = [k for k in res if res[k] == '0']
        al = sorted(k for k in res if res[k] == '1')
        inc = sorted(k for k in res if res[k] not in ('0', '1'))
        out.append('| %s | %s | %d/%d | %s | %s |' % (n, summ, len(ok), len(res), ', '.join(al) or '-', ', '.join(inc) or '-'))
    hist = os.path.join(V, 'seeded', 'BENIGN_HISTORY.md')
    if os.path.exists(hist):
        out += ['', open(hist).read().rstrip('\n')]
    open(os.path.join(V, 'seeded', 'BENIGN.md'), 'w').write('\n'.join(out) + '\n')
    print('benign', {n: sum(1 for k in per[n] if per[n][k] != '0') for n in sorted(per)})
