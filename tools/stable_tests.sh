#!/bin/bash
# usage: stable_tests.sh <worktree>   -> exit 0 iff all 499 baseline-stable tests pass and everything builds
set -u
export GOFLAGS=-mod=mod GOPROXY=off GOSUMDB=off GOTOOLCHAIN=local
cd "$1" || exit 2
go build ./... || { echo "BUILD FAILED"; exit 1; }
flock /tmp/.stable_tests.lock go test -json -vet=off -count=1 -p 1 -timeout 25m ./... > /tmp/.stable_out.$$.json 2>/dev/null
python3 - /tmp/.stable_out.$$.json <<'P'
import json,sys
b=json.load(open('/root/.vp/BASELINE.json'))
stable=set(b['stable_pass'])
res={}
for l in open(sys.argv[1]):
    try: e=json.loads(l)
    except: continue
    if e.get('Action') in('pass','fail') and e.get('Test'):
        res[e['Package']+'::'+e['Test']]=e['Action']
bad=[t for t in sorted(stable) if res.get(t)!='pass']
print('stable tests:',len(stable),'not passing:',len(bad))
for t in bad: print('  NOT PASSING',t,res.get(t))
sys.exit(1 if bad else 0)
P
rc=$?
rm -f /tmp/.stable_out.$$.json
git -C "$1" checkout -q -- debian/apparmor.d.hide 2>/dev/null
rm -rf "$1/.build"   # Test_Prebuild builds into the tree it runs in
exit $rc
