#!/bin/bash
# usage: mut_try.sh <patch.diff> <Cnn> [tier] ... applies a seeded patch to /repo, runs the check, undoes it
P="$1"; ID="$2"; TIER="${3:-quick}"
cd /repo || exit 2
if [ -n "$(git status --porcelain)" ]; then echo "/repo not clean"; git status --short | head; exit 2; fi
git apply "$P" 2>/dev/null || git apply --3way "$P" >/dev/null 2>&1 || { echo "patch does not apply (even 3-way)"; git reset -q --hard HEAD; exit 2; }
git reset -q
cd /verif && ./check "$ID" "$TIER" 2>&1 | grep -E "^(VIOLATION|OK|INCONCLUSIVE|KNOWN|DRIFT)" | cut -c1-260 | head -${LINES_MAX:-12}
rc=${PIPESTATUS[0]}
cd /repo && git checkout -q -- . && git clean -fdq apparmor.d pkg cmd dists systemd share tests 2>/dev/null
[ -n "$(git status --porcelain)" ] && { echo "WARNING: /repo not clean after undo"; git status --short | head; }
echo "check exit: $rc"
