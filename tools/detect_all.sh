#!/bin/bash
# usage: detect_all.sh [jobs] [glob]
# Runs the quick check of its property on every seeded change (seeded/<Cnn>-r*v*/patch.diff), each applied in a
# scratch worktree (tools/mut_try2.sh: /repo and /verif/evidence are not touched), <jobs> at a time; a change the
# quick tier misses is tried again with the thorough tier. One line per change goes to seeded/detection.tsv:
#   name <TAB> property <TAB> tier that decided <TAB> caught|missed|inapplicable <TAB> first violation
J="${1:-3}"; G="${2:-*-r*v*}"
V="$(cd "$(dirname "$0")/.." && pwd)"
OUT="$V/seeded/detection.tsv"; TMP=$(mktemp -d /tmp/detall.XXXX)
ls -d $V/seeded/$G/ 2>/dev/null | sort > "$TMP/all"
one() {
  d="$1"; slot="$2"; n=$(basename "$d"); id=${n%%-*}; w="/tmp/detwt$slot"
  for tier in quick thorough; do
    o=$(LINES_MAX=1 "$V/tools/mut_try2.sh" "$d/patch.diff" "$id" "$tier" "$w" 2>&1 | grep -v '^DRIFT')
    rc=$(echo "$o" | sed -n 's/^check exit: //p')
    if echo "$o" | grep -q "patch does not apply"; then printf '%s\t%s\t-\tinapplicable\tpatch does not apply to the current tree\n' "$n" "$id"; return; fi
    if [ "$rc" = "1" ]; then
      k=$(echo "$o" | grep '^VIOLATION' | head -1 | sed -E 's/^VIOLATION property=[^ ]* (key=)?//' | cut -c1-140 | tr '\t|' ' /')
      printf '%s\t%s\t%s\tcaught\t%s\n' "$n" "$id" "$tier" "$k"; return
    fi
    [ "$rc" = "0" ] || { printf '%s\t%s\t%s\terror\trc=%s %s\n' "$n" "$id" "$tier" "$rc" "$(echo "$o" | head -1 | cut -c1-100)"; return; }
    [ "${NO_THOROUGH:-0}" = "1" ] && break
  done
  printf '%s\t%s\t%s\tmissed\t-\n' "$n" "$id" "$tier"
}
export -f one; export V
i=0
while read -r d; do
  slot=$((i % J)); echo "$d" >> "$TMP/slot$slot"; i=$((i+1))
done < "$TMP/all"
for s in $(seq 0 $((J-1))); do
  [ -f "$TMP/slot$s" ] || continue
  ( while read -r d; do one "$d" "$s" >> "$TMP/res$s"; done < "$TMP/slot$s" ) &
done
wait
cat "$TMP"/res* 2>/dev/null | sort > "$TMP/new"
# merge with earlier results for names outside the glob
if [ -f "$OUT" ]; then
  cut -f1 "$TMP/new" > "$TMP/names"
  grep -v -F -w -f "$TMP/names" "$OUT" > "$TMP/old" 2>/dev/null
  cat "$TMP/old" "$TMP/new" | sort > "$OUT"
else
  cp "$TMP/new" "$OUT"
fi
for s in $(seq 0 $((J-1))); do git -C /repo worktree remove --force "/tmp/detwt$s" 2>/dev/null; done
git -C /repo worktree prune
rm -rf "$TMP"
awk -F'\t' '{c[$4]++} END {for (k in c) printf "%s=%d ", k, c[k]; print ""}' "$OUT"
