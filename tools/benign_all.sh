#!/bin/bash
# usage: benign_all.sh [jobs]
# Runs every quick check on every behaviour-preserving change (seeded/benign/<name>/patch.diff), each applied in a
# scratch worktree (tools/patch_run.sh), <jobs> changes at a time. One line per (change, check) goes to
# seeded/benign_results.tsv:  name <TAB> check <TAB> rc <TAB> first line of an alarm
J="${1:-3}"
V="$(cd "$(dirname "$0")/.." && pwd)"
OUT="$V/seeded/benign_results.tsv"; TMP=$(mktemp -d /tmp/benall.XXXX)
IDS=$(python3 -c "import json;print(' '.join(c['property_id'] for c in json.load(open('$V/MANIFEST.json'))['checks']))")
i=0
for d in "$V"/seeded/benign/*/; do echo "$d" >> "$TMP/slot$((i % J))"; i=$((i+1)); done
for s in $(seq 0 $((J-1))); do
  [ -f "$TMP/slot$s" ] || continue
  ( while read -r d; do
      n=$(basename "$d")
      "$V/tools/patch_run.sh" "$d/patch.diff" quick "/tmp/benwt$s" $IDS 2>&1 | while read -r line; do
        case "$line" in
          C[0-9][0-9]\ rc=*) id=${line%% *}; rc=$(echo "$line" | sed -E 's/^C[0-9]+ rc=([0-9]+).*/\1/'); printf '%s\t%s\t%s\t%s\n' "$n" "$id" "$rc" "$(echo "$line" | sed -E 's/^.*:: //' | cut -c1-200 | tr '\t' ' ')";;
          *) printf '%s\t-\t2\t%s\n' "$n" "$(echo "$line" | cut -c1-200 | tr '\t' ' ')";;
        esac
      done >> "$TMP/res$s"
    done < "$TMP/slot$s" ) &
done
wait
cat "$TMP"/res* 2>/dev/null | sort > "$OUT"
for s in $(seq 0 $((J-1))); do git -C /repo worktree remove --force "/tmp/benwt$s" 2>/dev/null; done
git -C /repo worktree prune; rm -rf "$TMP"
awk -F'\t' '{c[$3]++} END {for (k in c) printf "rc%s=%d ", k, c[k]; print ""}' "$OUT"
