#!/usr/bin/env python3
"""Copies confirmed seeded changes (tools/confirm_seed.sh said ok) into /verif/seeded/<name>/:
patch.diff, the demonstration, meta.json (the author's description + what was run to confirm it)."""
import json, os, re, shutil, sys, glob
conf = sys.argv[1]
out = '/verif/seeded'
os.makedirs(out, exist_ok=True)
for line in open(conf):
    m = re.match(r'(C\d\d) (\S+) v(\d) (\{.*\})', line.strip())
    if not m: continue
    pid, src, k, js = m.groups()
    res = json.loads(js)
    if not res.get('ok'): continue
    rnd = '1' if 'seeds1' in src else ('p' if 'ported' in src else ('3' if 'mut3' in src else ('4' if 'mut4' in src else ('5' if 'mut5' in src else ('6' if 'mut6' in src else ('7' if 'mut7' in src else ('8' if 'mut8' in src else '2')))))))
    name = f'{pid}-r{rnd}v{k}'
    d = os.path.join(out, name)
    os.makedirs(d, exist_ok=True)
    shutil.copy(os.path.join(src, f'patch{k}.diff'), os.path.join(d, 'patch.diff'))
    for f in glob.glob(os.path.join(src, f'demo{k}*')):
        shutil.copy(f, os.path.join(d, os.path.basename(f)))
    meta = {}
    mp = os.path.join(src, f'meta{k}.json')
    if os.path.exists(mp):
        try: meta = json.load(open(mp))
        except Exception: meta = {'raw': open(mp).read()}
    meta['property'] = pid
    meta['confirmed_by'] = {
        'command': f'tools/confirm_seed.sh <seed dir> {k} <scratch worktree of /repo>',
        'steps': ['demonstration on the clean tree', 'git apply patch.diff', 'go build ./...', 'the 499 baseline tests (tools/stable_tests.sh)', 'demonstration with the patch'],
        'result': res,
        'meaning': 'demo passes on the clean tree (rc 0), the patched tree builds, all 499 baseline tests pass, the demo fails with the patch (rc != 0)'}
    json.dump(meta, open(os.path.join(d, 'meta.json'), 'w'), indent=1)
    print('packaged', name)
