#!/bin/bash
# usage: patch_run.sh <patch.diff> <tier> <worktree> <Cnn>...
# Applies a patch in a scratch worktree of /repo (never /repo itself), builds the harness against it
# once, and runs the listed checks; one summary line per check. Evidence goes to a scratch root.
P="$(realpath "$1")"; TIER="$2"; W="$3"; shift 3
export GOFLAGS=-mod=mod GOPROXY=off GOSUMDB=off GOTOOLCHAIN=local
if [ ! -d "$W" ]; then git -C /repo worktree add -q --detach "$W" HEAD || exit 2; fi
cd "$W" && git checkout -q --detach "$(git -C /repo rev-parse HEAD)" 2>/dev/null; git checkout -q -- . ; git clean -fdq >/dev/null 2>&1
git apply "$P" 2>/dev/null || git apply --3way "$P" >/dev/null 2>&1 || { git reset -q --hard HEAD; echo "patch does not apply"; exit 2; }
git reset -q
R=$(mktemp -d /tmp/mutroot.XXXX); H=$(mktemp -d /tmp/muth.XXXX)
cp -a /verif/spec /verif/known_findings.json "$R/"; mkdir -p "$R/evidence"
cp -a /verif/harness/. "$H/"; sed -i "s#=> /repo#=> $W#" "$H/go.mod"
if ! (cd "$H" && go build -tags verif -o "$H/vcheck" .) > "$H/build.log" 2>&1; then
  echo "harness build failed against the patched tree:"; tail -5 "$H/build.log"
else
  for id in "$@"; do
    out=$(VERIF_REPO="$W" VERIF_ROOT="$R" VERIF_TIER="$TIER" "$H/vcheck" "$id" "$TIER" 2>&1); rc=$?
    echo "$id rc=$rc $(echo "$out" | grep -cE '^VIOLATION') viol :: $(echo "$out" | grep -E '^(VIOLATION|INCONCLUSIVE)' | head -2 | sed -E 's/replay=[^ ]* //' | cut -c1-220 | tr '\n' '|')"
  done
fi
rm -rf "$R" "$H"; cd "$W" && git checkout -q -- . && git clean -fdq >/dev/null 2>&1
