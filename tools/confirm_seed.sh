#!/bin/bash
# usage: confirm_seed.sh <seed_dir> <k> <worktree>   (worktree: a scratch git worktree of /repo at HEAD, clean)
# Confirms a seeded change: (1) demo passes on the clean tree, (2) patch applies and builds,
# (3) the 499 stable tests pass with it, (4) demo fails with it. Prints a JSON line; exit 0 iff all hold.
S="$(realpath "$1")"; K="$2"; W="$3"; TOOLS="$(cd "$(dirname "$0")" && pwd)"
export GOFLAGS=-mod=mod GOPROXY=off GOSUMDB=off GOTOOLCHAIN=local
P="$S/patch$K.diff"; [ -f "$P" ] || { echo "{\"ok\":false,\"why\":\"no patch\"}"; exit 1; }
cd "$W" || exit 2
git checkout -q -- . ; git clean -fdq -e _seed >/dev/null 2>&1
run_demo() {
  if [ -f "$S/demo$K.sh" ]; then
    bash "$S/demo$K.sh" "$W" > "$W/.demo.out" 2>&1; return $?
  elif [ -f "$S/demo${K}_test.go" ]; then
    pkg=$(grep -m1 '^package ' "$S/demo${K}_test.go" | awk '{print $2}' | sed 's/_test$//')
    case "$pkg" in aa) d=pkg/aa;; logs) d=pkg/logs;; util) d=pkg/util;; directive) d=pkg/prebuild/directive;; builder) d=pkg/prebuild/builder;; prepare) d=pkg/prebuild/prepare;; cli) d=pkg/prebuild/cli;; prebuild) d=pkg/prebuild;; main) d=$(grep -o 'cmd/[a-z-]*' "$S/meta$K.json" | head -1);; *) d=pkg/$pkg;; esac
    cp "$S/demo${K}_test.go" "$W/$d/zz_seed_demo_test.go"
    (cd "$W" && go test -count=1 -run 'Demo|Seed|C[0-9][0-9]' "./$d/") > "$W/.demo.out" 2>&1; rc=$?
    rm -f "$W/$d/zz_seed_demo_test.go"; rm -rf "$W/.build"; git -C "$W" checkout -q -- debian 2>/dev/null
    return $rc
  fi
  return 99
}
run_demo; clean_rc=$?
git apply "$P" 2>/dev/null || git apply --3way "$P" >/dev/null 2>&1 || { git reset -q --hard HEAD; echo "{\"ok\":false,\"why\":\"patch does not apply\",\"demo_clean_rc\":$clean_rc}"; exit 1; }
git reset -q
go build ./... > "$W/.build.out" 2>&1; build_rc=$?
tests_rc=0
if [ $build_rc -eq 0 ]; then "$TOOLS/stable_tests.sh" "$W" > "$W/.tests.out" 2>&1; tests_rc=$?; fi
run_demo; mut_rc=$?
git checkout -q -- . ; git clean -fdq -e _seed >/dev/null 2>&1
ok=false; [ $clean_rc -eq 0 ] && [ $build_rc -eq 0 ] && [ $tests_rc -eq 0 ] && [ $mut_rc -ne 0 ] && [ $mut_rc -ne 99 ] && ok=true
echo "{\"ok\":$ok,\"demo_clean_rc\":$clean_rc,\"build_rc\":$build_rc,\"stable_tests_rc\":$tests_rc,\"demo_with_patch_rc\":$mut_rc}"
$ok
