#!/usr/bin/env python3
# Regenerates /verif/MANIFEST.json from the table below (properties not listed go to not_applicable).
import json
props=[json.loads(l) for l in open('/verif/properties.jsonl')]
MC="model_checking"; TV="translation_validation"
claimed={
 "C01":(TV,"Every file of every explored build (shipped tree + TLC-generated profiles, built by the real prebuild binary) is given to the reference parser apparmor_parser 3.0.8 over an overlay of the upstream policy directory (-Q -K -d on everything, full compile on the thorough tier / on two rotating configurations and all directive hosts on the quick tier); the verdicts are trace events TLC validates. The Builders.tla model gives the design-level Loadable predicate (leads).","§4 C01","apparmor_parser 3.0.8 as stand-in for the target parser with the normalisation C01 allows (abi 4.0 read as 3.0; userns/mqueue/io_uring/all set aside); stand-ins for four include files upstreamed in 4.1","reference-parser translation validation of real builds, verdict events validated by TLC (TreeTrace.tla); TLC model of the build stage for generated inputs"),
 "C05":(MC,"TLC explores the build-stage model (Builders.tla: 12 registered chains x ~300 abstract files, tables extracted from the real binaries) and every real build (shipped tree + the TLC-generated files, built by the real prebuild binary) is replayed as a trace against the specification: per block, flags(mode build) = flags(none build) +/- complain, rest of header equal; none build anchored to source flags and manifests.","§4 C05","TLC; harness/scan.go header scanner; the none build of the same tree as differential baseline, anchored to source flags + manifests for the main block","TLA+ model checking (TLC) of Builders.tla + trace validation of real prebuild runs (BuildersTrace.tla)"),
 "C08":(MC,"Name sets and references of real builds (all distributions x normal/full x ABI) are projected by the independent scanner and replayed into TreeTrace.tla, where TLC evaluates RefOK for every exec-transition / change_profile / stack target and every systemd drop-in, and membership in the source tree for manifest, overwrite and directive names.","§4 C08","scanner classification of exec rules and headers; a name also resolves when upstream 3.0.8 policy defines it; patterns (variables, globs) exempt","TLA+ trace validation (TLC, TreeTrace.tla/Tree.tla) of projections of real builds"),
 "C17":(MC,"TLC explores every registered chain x every permission token (tables extracted from the real builders) and checks that no r+{PUx,Ux} source rule keeps an unconfined fallback; every --full build of the real tree (+ generated files, + stack hosts) is replayed as a trace: builder-stage episodes from hook events and the finally written files.","§4 C17","TLC; harness/scan.go exec-rule scanner; builder hook events report the text each registered builder really saw","TLA+ model checking (TLC) of Builders.tla + trace validation of real --full builds (BuildersTrace.tla)"),
 "C19":(MC,"Every profile file and abstraction of the source tree is projected (abi, top-level profiles, attachments, defined variables, blocks with their local includes) and TLC evaluates the contract predicates of Tree.tla on each, plus base-name uniqueness over the whole tree: a complete enumeration of the finite quantifier domain.","§4 C19","independent scanner; the clauses follow the statement and the project's own lint (tests/check.sh)","TLA+ evaluation (TLC, TreeTrace.tla/Tree.tla) of the contract over the complete source tree"),
}
checks=[]
for pid in sorted(claimed):
    lvl,text,ref,note,tech=claimed[pid]
    checks.append({"property_id":pid,"quick_cmd":"./check %s quick"%pid,"thorough_cmd":"./check %s thorough"%pid,"evidence_file":"/verif/evidence/%s.json"%pid,"replay_cmd_template":"./check %s quick --replay {path}"%pid,"engine":"tlc+vcheck","level_claimed":{"category":lvl,"text":text,"design_ref":ref},"level_note":note,"technique":tech})
na=[{"property_id":p['id'],"reason":"check under construction in this round (planned as claimed, see DESIGN.md §4); not yet registered"} for p in props if p['id'] not in claimed]
m={"version":1,
 "setup_cmd":"cd /verif/harness && cp -f /repo/go.sum go.sum; GOFLAGS=-mod=mod GOPROXY=off GOSUMDB=off GOTOOLCHAIN=local go build -tags verif -o /dev/null . ; true",
 "hooks":{"guard":"verif","enable":"go build -tags verif (done by ./check for cmd/prebuild, cmd/aa-log and the harness, which links /repo's packages)","baseline_off_cmd":"cd /repo && GOFLAGS=-mod=mod GOPROXY=off GOSUMDB=off go test -json -vet=off -count=1 -p 1 -timeout 25m ./...","source_commits":["0403af4"],"add_only":True},
 "engines":[{"name":"tlc+vcheck","path":"/verif/check","serves_properties":sorted(claimed),"kind_free_text":"TLA+ specifications under /verif/spec checked by TLC; Go harness /verif/harness generates inputs from TLC behaviours, runs the real binaries/library built from /repo, records traces and has TLC validate them"}],
 "checks":checks,
 "not_applicable":na,
 "notes":"See DESIGN.md. known_findings.json lists genuine defects (open / fixed)."}
json.dump(m,open('/verif/MANIFEST.json','w'),indent=1)
print("claimed:",sorted(claimed))
