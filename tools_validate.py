#!/opt/veriftools/pyvenv/bin/python
import json,jsonschema,glob,sys
jsonschema.validate(json.load(open('/verif/MANIFEST.json')),json.load(open('/root/.vp/MANIFEST.schema.json')))
m=json.load(open('/verif/MANIFEST.json'))
ok=True
for c in m['checks']:
    try:
        jsonschema.validate(json.load(open(c['evidence_file'])),json.load(open('/root/.vp/EVIDENCE.schema.json')))
    except Exception as e:
        ok=False; print('EVIDENCE INVALID',c['property_id'],str(e)[:300])
props=[json.loads(l)['id'] for l in open('/verif/properties.jsonl')]
cl=[c['property_id'] for c in m['checks']]; na=[n['property_id'] for n in m.get('not_applicable',[])]
for p in props:
    if (p in cl)==(p in na): ok=False; print('property',p,'must be exactly one of claimed / not_applicable')
print('valid' if ok else 'INVALID')
