SPECIFICATION Spec
INVARIANTS C15 RawTotal
CHECK_DEADLOCK FALSE
