----------------------------- MODULE RulesTrace -----------------------------
(* Replays results of the REAL Rules.Merge / Rule.Compare / Rules.Sort.          *)
(*   merge  in, out (after one Merge), out2 (after a second Merge): abstract      *)
(*          rules read from the struct fields by reflection                       *)
(*   cmp    the complete comparison matrix of a universe of real rules, and the   *)
(*          matrix of structural identity                                          *)
(*   sort   the results of sorting every permutation of a list, and re-sorting    *)
EXTENDS Rules, StrOrder, Json, IOUtils

Trace == ndJsonDeserialize(IOEnv.VERIF_TRACE)
VARIABLES l, ev
TInit == l = 1 /\ ev = [ev |-> "init"]
TNext == l <= Len(Trace) /\ l' = l + 1 /\ ev' = Trace[l]
TSpec == TInit /\ [][TNext]_<<l, ev>>

Rep(p, what, d) == PrintT("VIOL " \o ToJson([p |-> p, id |-> ev.id, what |-> what, d |-> d]))
J2R(r)   == [k |-> r.k, q |-> r.q, s |-> r.s, d |-> [i \in DOMAIN r.d |-> SeqToSet(r.d[i])], mergekind |-> TRUE]
Rs(js)   == [i \in DOMAIN js |-> J2R(js[i])]
C10 == ev.ev = "merge" =>
    /\ LET U == ValuesIn(Rs(ev.in)) \cup ValuesIn(Rs(ev.out)) IN
       (Facts(Rs(ev.out), U) = Facts(Rs(ev.in), U)
          \/ Rep("C10", "merging changed what the rules grant or deny", [lost |-> Facts(Rs(ev.in), U) \ Facts(Rs(ev.out), U), gained |-> Facts(Rs(ev.out), U) \ Facts(Rs(ev.in), U)]))
    /\ (ev.out2 = ev.out \/ Rep("C10", "merging an already merged list changes it", [out |-> ev.out, again |-> ev.out2]))
C11Cmp == ev.ev = "cmp" =>
    /\ ((\A i \in DOMAIN ev.m : ev.m[i][i] = 0) \/ Rep("C11", "a rule does not compare equal to itself", {i \in DOMAIN ev.m : ev.m[i][i] # 0}))
    /\ (BadAnti(ev.m) = {}  \/ Rep("C11", "comparison is not antisymmetric", BadAnti(ev.m)))
    /\ (BadTrans(ev.m) = {} \/ Rep("C11", "comparison is not transitive", BadTrans(ev.m)))
    /\ (BadZero(ev.m, ev.same) = {} \/ Rep("C11", "two distinct rules compare equal", BadZero(ev.m, ev.same)))
C11Sort == ev.ev = "sort" =>
    /\ (\A i \in DOMAIN ev.results : ev.results[i] = ev.results[1]) \/ Rep("C11", "sorting depends on the order in which the rules are supplied", ev.results)
    /\ (\A i \in DOMAIN ev.resorted : ev.resorted[i] = ev.results[i]) \/ Rep("C11", "sorting is not idempotent", ev.resorted)
\* strcmp: the complete sign matrix of the real comparison of rules that differ only in one string,
\* for every string of the StrOrder universe: the order axioms convict, the model's Cmp is compared (DRIFT)
StrDiffs == {<<i, j>> \in (DOMAIN ev.m) \X (DOMAIN ev.m) : ev.m[i][j] # Cmp(ev.strs[i], ev.strs[j])}
C11Str == ev.ev = "strcmp" =>
    /\ (BadAnti(ev.m) = {}  \/ Rep("C11", "comparison of strings is not antisymmetric", {<<ev.strs[p[1]], ev.strs[p[2]]>> : p \in BadAnti(ev.m)}))
    /\ (BadTrans(ev.m) = {} \/ Rep("C11", "comparison of strings is not transitive", {<<ev.strs[p[1]], ev.strs[p[2]], ev.strs[p[3]]>> : p \in BadTrans(ev.m)}))
    /\ ({p \in (DOMAIN ev.m) \X (DOMAIN ev.m) : p[1] < p[2] /\ ev.m[p[1]][p[2]] = 0} = {}
          \/ Rep("C11", "two distinct strings compare equal", {<<ev.strs[p[1]], ev.strs[p[2]]>> : p \in {x \in (DOMAIN ev.m) \X (DOMAIN ev.m) : x[1] < x[2] /\ ev.m[x[1]][x[2]] = 0}}))
    /\ (StrDiffs = {} \/ PrintT("DRIFT " \o ToJson([id |-> ev.id, what |-> "the model orders strings differently from the real comparison", d |-> {<<ev.strs[p[1]], ev.strs[p[2]]>> : p \in StrDiffs}])))
Accepted == TLCGet("stats").diameter = Len(Trace) + 1
=============================================================================
