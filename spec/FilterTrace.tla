----------------------------- MODULE FilterTrace -----------------------------
(* Replays real applications of the only/exclude directives against Filter.tla. *)
(*   file  a whole text before directive.Run and after it (replay of generated   *)
(*         files through the real library, any configuration)                    *)
(*   step  one application inside a real build (hook event "directive"): the     *)
(*         directive's own line, the text before and after                        *)
EXTENDS Filter, Json, IOUtils

Trace == ndJsonDeserialize(IOEnv.VERIF_TRACE)
VARIABLES l, ev
TInit == l = 1 /\ ev = [ev |-> "init"]
TNext == l <= Len(Trace) /\ l' = l + 1 /\ ev' = Trace[l]
TSpec == TInit /\ [][TNext]_<<l, ev>>

Rep(tag, what, d) == PrintT(tag \o " " \o ToJson([p |-> "C03", id |-> ev.id, what |-> what, d |-> d]))
C03File == ev.ev = "file" =>
    IF ~FileInContract(ev.src) THEN TRUE
    ELSE /\ (FileOK(ev.src, ev.out, ev.cfg) \/ Rep("VIOL", "after all only/exclude directives the text is not the source minus the rules and paragraphs not meant for this target", [want |-> NonBlank(FileRef(ev.src, ev.cfg, 1)), got |-> NonBlank(ev.out)]))
         /\ ((\A i \in DOMAIN ev.out : ~Marked(ev.out[i])) \/ Rep("VIOL", "an only/exclude marker survives", ""))
         /\ (Algo(ev.src, ev.cfg) = ev.out \/ NonBlank(Algo(ev.src, ev.cfg)) = NonBlank(ev.out) \/ Rep("DRIFT", "algorithm model does not explain the real result", ""))
C03Step == ev.ev = "step" =>
    IF ~InContract(ev.before, ev.d) THEN Rep("INFO", "guarded paragraph not terminated by a blank line: not judged", "")
    ELSE StepOK(ev.before, ev.after, ev.d, ev.cfg)
         \/ Rep("VIOL", "one application of a filter directive changed more or less than the guarded rule/paragraph", [d |-> ev.d, keep |-> KeepIt(ev.d, ev.cfg)])
\* a file built on its own (prebuild --file), when that build succeeds, is the file of the whole build: no marker
\* left, the same bytes
C03Single == ev.ev = "single" =>
    /\ (ev.markers = 0 \/ Rep("VIOL", "an only/exclude marker survives in a file built on its own (--file)", ev.markers))
    /\ (ev.alone = ev.whole \/ Rep("VIOL", "a file built on its own (--file) differs from the same file of the whole build", [whole |-> ev.whole, alone |-> ev.alone]))
Accepted == TLCGet("stats").diameter = Len(Trace) + 1
==============================================================================
