----------------------------- MODULE OrthoTrace -----------------------------
(* Replays the differences between pairs of REAL builds at Hamming distance 1. *)
(* "pair" starts an episode (the two configurations, the option switched),     *)
(* "diff" is one difference, "pairend" closes the episode with the counts the  *)
(* harness measured (files compared, identical).                               *)
EXTENDS Ortho, Json, IOUtils, Sequences

Trace == ndJsonDeserialize(IOEnv.VERIF_TRACE)
VARIABLES l, ev, pair, ndiff
tvars == <<l, ev, pair, ndiff>>
TInit == l = 1 /\ ev = [ev |-> "init"] /\ pair = [a |-> "", b |-> "", opt |-> ""] /\ ndiff = 0
Consume(k) == l <= Len(Trace) /\ Trace[l].ev = k /\ l' = l + 1 /\ ev' = Trace[l]
TPair == Consume("pair") /\ pair' = [a |-> Trace[l].a, b |-> Trace[l].b, opt |-> Trace[l].opt] /\ ndiff' = 0
TDiff == Consume("diff") /\ ndiff' = ndiff + 1 /\ UNCHANGED pair
TEnd  == Consume("pairend") /\ UNCHANGED <<pair, ndiff>>
TNext == TPair \/ TDiff \/ TEnd
TSpec == TInit /\ [][TNext]_tvars

C18Diff == ev.ev = "diff" =>
    \/ ev.opt = pair.opt /\ Governed(ev)
    \/ PrintT("VIOL " \o ToJson([p |-> "C18", key |-> ev.key, a |-> pair.a, b |-> pair.b, opt |-> pair.opt, d |-> ev]))
\* bookkeeping: the harness' count of differences equals what was replayed
C18Count == ev.ev = "pairend" => (ev.ndiff = ndiff \/ PrintT("DRIFT " \o ToJson([p |-> "count", a |-> pair.a, b |-> pair.b])))
Accepted == TLCGet("stats").diameter = Len(Trace) + 1
=============================================================================
