----------------------------- MODULE MC_Detect -----------------------------
(* Every os-release of a bounded universe (ID x ID_LIKE word lists), with and    *)
(* without $DISTRIBUTION: the model's distribution is printed (BEH) for replay   *)
(* through the real binary; inputs on which the code's map walk has several      *)
(* candidates are printed as leads.                                              *)
EXTENDS Detect, Json, TLCExt
VARIABLES id, like, env, k
vars == <<id, like, env, k>>
Ids   == {"arch", "debian", "ubuntu", "neon", "suse", "opensuse", "opensuse-tumbleweed", "opensuse-leap",
          "whonix", "linuxmint", "manjaro", "kali", "void", ""}
Likes == {<<>>, <<"debian">>, <<"arch">>, <<"ubuntu">>, <<"suse">>, <<"ubuntu", "debian">>, <<"debian", "ubuntu">>,
          <<"opensuse", "suse">>, <<"suse", "opensuse">>, <<"rhel", "fedora">>, <<"arch", "debian">>}
Envs  == {"", "debian", "whonix"}
Init == id \in Ids /\ like \in Likes /\ env \in Envs /\ k = 0
Next == k = 0 /\ k' = 1 /\ UNCHANGED <<id, like, env>>
Spec == Init /\ [][Next]_vars
Judged == env # "" \/ Deterministic(id, like)
\* design: inside the contract the distribution is a function of the input (CHOOSE over a singleton), and an
\* explicit $DISTRIBUTION always wins
Design == Judged => /\ Dist(env, id, like) # "" \/ (env = "" /\ id = "")
                    /\ (env # "" => Dist(env, id, like) = env)
Lead == (k = 1 /\ ~Judged) => PrintT("LEADD " \o ToJson([id |-> id, like |-> like, cands |-> Cands(id, like)]))
Emit == k = 1 => PrintT("BEHD " \o ToJson([id |-> id, like |-> like, env |-> env, judged |-> Judged,
                                         want |-> Dist(env, id, like), builds |-> Builds(Dist(env, id, like)),
                                         amb |-> Cardinality(WordCands(id, like))]))
=============================================================================
