--------------------------- MODULE RuleTextTrace ---------------------------
(* Replays real print / parse / reference-parser results against RuleText.    *)
(*   roundtrip  a rule (or a block): abstract fields before, after parsing the *)
(*              printed text, first and second printed text                    *)
(*   filert     a whole profile file: preamble and header before / after       *)
(*   meaning    a printed rule shown to apparmor_parser: accepted, and compiled *)
(*              to the same policy as the independent rendering of its fields  *)
EXTENDS Naturals, Sequences, FiniteSets, TLC, Json, IOUtils

Trace == ndJsonDeserialize(IOEnv.VERIF_TRACE)
VARIABLES l, ev
TInit == l = 1 /\ ev = [ev |-> "init"]
TNext == l <= Len(Trace) /\ l' = l + 1 /\ ev' = Trace[l]
TSpec == TInit /\ [][TNext]_<<l, ev>>
Rep(p, what, d) == PrintT("VIOL " \o ToJson([p |-> p, id |-> ev.id, what |-> what, d |-> d]))
SeqSet(s) == {s[i] : i \in DOMAIN s}

C09Rule == ev.ev = "roundtrip" =>
    /\ (ev.parseok \/ Rep("C09", "the parser rejects (or crashes on) text the library printed", ev.text1))
    /\ (~ev.parseok \/ ev.parsed = ev.rule \/ Rep("C09", "parsing the printed text does not give the same rules back", [want |-> ev.rule, got |-> ev.parsed, text |-> ev.text1]))
    /\ (~ev.parseok \/ ev.text2 = ev.text1 \/ Rep("C09", "printing the parsed rules does not reproduce the text", [first |-> ev.text1, second |-> ev.text2]))
C09File == ev.ev = "filert" =>
    /\ (ev.parseok \/ Rep("C09", "the parser rejects a profile file the library printed", ev.text1))
    /\ (~ev.parseok \/ (ev.ordered2 = ev.ordered1 /\ SeqSet(ev.set2) = SeqSet(ev.set1))
          \/ Rep("C09", "preamble rules are not recovered (comments / includes / variables in order, abi / alias as a set)", [want |-> ev.ordered1, got |-> ev.ordered2]))
    /\ (~ev.parseok \/ ev.header2 = ev.header1 \/ Rep("C09", "profile header is not recovered (name, attachments, flags, xattrs)", [want |-> ev.header1, got |-> ev.header2]))
C12Meaning == ev.ev = "meaning" =>
    /\ (ev.accepted \/ Rep("C12", "the reference parser rejects text the library printed for a valid rule", [text |-> ev.text, diag |-> ev.diag]))
    /\ (~ev.accepted \/ ~ev.refaccepted \/ ev.samepolicy \/ Rep("C12", "the reference parser reads another rule from the printed text than the rule's fields state", [text |-> ev.text, ref |-> ev.reftext]))
Accepted == TLCGet("stats").diameter = Len(Trace) + 1
=============================================================================
