SPECIFICATION TSpec
INVARIANTS LineOK
POSTCONDITION Accepted
CHECK_DEADLOCK FALSE
