SPECIFICATION TSpec
INVARIANTS LineOK CliOK
POSTCONDITION Accepted
CHECK_DEADLOCK FALSE
