-------------------------------- MODULE Tree --------------------------------
(* Relations over whole policy trees (source tree, built tree):               *)
(*   C19  the layout contract every shipped profile file honours              *)
(*   C08  every name a built policy refers to is defined in that build        *)
(* These are state predicates over projections of real trees; the trace spec  *)
(* TreeTrace replays the projection of the real source / real builds.         *)
EXTENDS Policy, SequencesExt

\* ---------------------------------------------------------------- C19
\* A profile file record:
\*   base    file name minus the package suffix
\*   abi     path of its abi declaration ("" when none), magic: written <..>
\*   tops    top-level profiles [name, att (sequence of attachment tokens)]
\*   vars    variables defined (=) in the preamble
\*   blocks  every profile block [depth, sub (own name), locals (if-exists includes <local/..> directly inside)]
ExpectedLocal(base, b) == IF b.depth = 0 THEN "local/" \o base ELSE "local/" \o base \o "_" \o b.sub

AbiOK(r)   == r.abi = "abi/4.0" /\ r.magic
NamedOK(r) == \E i \in DOMAIN r.tops : r.tops[i].name = r.base
AttachOK(r) == \A i \in DOMAIN r.tops : r.tops[i].name = r.base =>
                  \/ r.tops[i].att = <<>>
                  \/ (r.tops[i].att = <<"@{exec_path}">> /\ "@{exec_path}" \in SeqToSet(r.vars))
\* blocks of the profile named after the file (top = that profile)
LocalsOK(r) == \A i \in DOMAIN r.blocks : r.blocks[i].top = r.base =>
                  ExpectedLocal(r.base, r.blocks[i]) \in SeqToSet(r.blocks[i].locals)
BadLocals(r) == {r.blocks[i].qual : i \in {j \in DOMAIN r.blocks : r.blocks[j].top = r.base /\ ExpectedLocal(r.base, r.blocks[j]) \notin SeqToSet(r.blocks[j].locals)}}

\* an abstraction includes its own drop-in directory
AbstractionOK(a) == ("abstractions/" \o a.rel \o ".d") \in SeqToSet(a.incs)

\* base names are unique across groups: the flat output directory loses nothing
Dups(names) == {names[i] : i \in {j \in DOMAIN names : \E k \in DOMAIN names : k # j /\ names[k] = names[j]}}

\* ---------------------------------------------------------------- C08
\* A reference: [kind (exec|change_profile|dropin|stack), child (BOOLEAN: c-transition), encl (qualified
\* name of the enclosing block), parts (target split at "//&"), pattern (target holds a variable or glob)]
RefOK(ref, defines, upstream) ==
    \/ ref.pattern
    \/ \A i \in DOMAIN ref.parts :
          IF ref.child THEN (ref.encl \o "//" \o ref.parts[i]) \in defines
          ELSE ref.parts[i] \in defines \/ ref.parts[i] \in upstream
=============================================================================
