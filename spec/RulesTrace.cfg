SPECIFICATION TSpec
INVARIANTS C10 C11Cmp C11Sort
POSTCONDITION Accepted
CHECK_DEADLOCK FALSE
