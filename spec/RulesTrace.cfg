SPECIFICATION TSpec
INVARIANTS C10 C11Cmp C11Sort C11Str
POSTCONDITION Accepted
CHECK_DEADLOCK FALSE
