------------------------------ MODULE MC_AaLog ------------------------------
(* Bounded universe for C14: logs of up to MaxLen lines over a menu of event    *)
(* records of three profiles (one a prefix of another), duplicates modulo        *)
(* timestamp/pid, noise records, status records, foreign / blank / garbled /     *)
(* very long lines, x filter in {none, "pa", "pab", "zz"}.                       *)
EXTENDS AaLog, Json, IOUtils, TLCExt

MaxLen == IF "VERIF_LOG_LEN" \in DOMAIN IOEnv THEN atoi(IOEnv.VERIF_LOG_LEN) ELSE 4
MCScannerLimit == FALSE
Ln(cls, cid, prof, noise) == [cls |-> cls, id |-> 0, cid |-> cid, prof |-> prof, noise |-> noise]
PA == <<"p", "a">>   PAB == <<"p", "a", "b">>   ZZ == <<"z", "z">>
Menu == { Ln("ALLOWED", "c1", PA, FALSE), Ln("DENIED", "c2", PAB, FALSE), Ln("AUDIT", "c3", ZZ, FALSE),
          Ln("ALLOWED", "c1", PA, FALSE), Ln("DENIED", "c4", PA, TRUE), Ln("STATUS", "c5", PA, FALSE),
          Ln("foreign", "c6", <<>>, FALSE), Ln("blank", "c7", <<>>, FALSE), Ln("garbled", "c8", <<>>, FALSE),
          Ln("long", "c9", PAB, FALSE), Ln("DENIED", "c10", ZZ, FALSE), Ln("trunc", "c11", PA, FALSE),
          \* a twin of c2: the same record except for fields the default display does not show (fsuid, ouid, hostname)
          Ln("DENIED", "c2t", PAB, FALSE) }
Filters == {<<>>, PA, PAB, ZZ}

Init == input = <<>> /\ filter \in Filters /\ pos = 0 /\ stopped = FALSE /\ kept = <<>>
Extend == pos = 0 /\ Len(input) < MaxLen /\ \E m \in Menu : input' = Append(input, [m EXCEPT !.id = Len(input) + 1]) /\ UNCHANGED <<filter, pos, stopped, kept>>
Start  == pos = 0 /\ input # <<>> /\ pos' = 1 /\ UNCHANGED <<input, filter, stopped, kept>>
Scan   == pos >= 1 /\ ScanLine
Spec == Init /\ [][Extend \/ Start \/ Scan]_avars

Lead(ok) == ok \/ PrintT("LEAD C14 " \o ToJson([input |-> input, filter |-> filter]))
Leads == (pos >= 1 /\ Finished) => Lead(Output = Reported(input, filter))
Emit  == (pos = 1 /\ filter = <<>>) => PrintT("BEH " \o ToJson([input |-> input]))
=============================================================================
