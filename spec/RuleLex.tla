------------------------------ MODULE RuleLex ------------------------------
(* C09 at the level of characters: what the printer writes for a file rule and  *)
(* what the lexical stages of the parser (pkg/aa/parse.go) read back.           *)
(*                                                                              *)
(* Abstract characters:  a letter, s blank, q double quote, c comma, h '#',      *)
(* e '=', o( c) o{ c} o[ c] the three block pairs, sl '/', at '@', bs backslash, *)
(* nl newline, u a multibyte character, st '*', dl '$', pc '%' (ordinary here,   *)
(* special to template and format functions), and the words owner audit deny     *)
(* acc (an access string) arrow ("->") tgt (a profile name), each a run of       *)
(* ordinary characters.                                                          *)
(*                                                                              *)
(* A rule: [qual (sequence of qualifier words), owner, path, target, comment]    *)
(* with path / target / comment sequences of characters (<<>> = absent).         *)
(* Print follows templates/rule/file.j2 + comment.j2 + quoteAARE.                *)
(* The parser, stage by stage, as coded:                                         *)
(*   Comma     parseCommaRules: cut the paragraph at commas outside blocks,      *)
(*             quotes and comments; a comma glued to the next character belongs  *)
(*             to a path; an inline comment goes to the rule before it           *)
(*   Tok       tokenizeRule: cut a rule at blanks outside blocks and quotes      *)
(*   Classify  parseRule: a token is a path (single value), a map (has '='), a   *)
(*             list (has '('), a comment ('#') or a plain word                   *)
(*   ToFile    newRules + newFile: qualifiers and owner in any order, then path, *)
(*             access, optionally "->" and a target                              *)
(* Theorem:  ParseText(PrintBlock(rs)) = the same rules (paths compared in their *)
(* written, i.e. possibly quoted, form) - checked by TLC on every rule of the    *)
(* bounded universe, and against the real printer and parser by RuleLexTrace.    *)
EXTENDS Integers, Sequences, FiniteSets, TLC

Open  == {"o(", "o{", "o["}
Close == {"c)", "c}", "c]"}
QualWords == {"audit", "deny", "allow"}
Range(s) == {s[i] : i \in DOMAIN s}
RECURSIVE Flat(_)
Flat(ss) == IF ss = <<>> THEN <<>> ELSE ss[1] \o Flat(Tail(ss))
RECURSIVE JoinWith(_, _)
JoinWith(ss, sep) == IF ss = <<>> THEN <<>> ELSE IF Len(ss) = 1 THEN ss[1] ELSE ss[1] \o sep \o JoinWith(Tail(ss), sep)

\* ---------------------------------------------------------------- printer
Quote(p) == IF p # <<>> /\ "s" \in Range(p) /\ p[1] # "q" THEN <<"q">> \o p \o <<"q">> ELSE p
PrintFile(r) == Flat([i \in DOMAIN r.qual |-> <<r.qual[i], "s">>])
                \o (IF r.owner THEN <<"owner", "s">> ELSE <<>>)
                \o Quote(r.path) \o <<"s", "acc">>
                \o (IF r.target # <<>> THEN <<"s", "arrow", "s">> \o Quote(r.target) ELSE <<>>)
                \o <<"c">>
                \o (IF r.comment # <<>> THEN <<"s", "h">> \o r.comment ELSE <<>>)
PrintBlock(rs) == JoinWith([i \in DOMAIN rs |-> PrintFile(rs[i])], <<"nl">>)

\* ---------------------------------------------------------------- parseCommaRules
RECURSIVE TrimL(_)
TrimL(s) == IF s # <<>> /\ s[1] \in {"s", "nl"} THEN TrimL(Tail(s)) ELSE s
RECURSIVE TrimR(_)
TrimR(s) == IF s # <<>> /\ s[Len(s)] \in {"s", "nl"} THEN TrimR(SubSeq(s, 1, Len(s) - 1)) ELSE s
Trim(s) == TrimR(TrimL(s))
SetLastComment(out, cm) == IF out = <<>> THEN out ELSE [out EXCEPT ![Len(out)].comment = cm]

RECURSIVE Comma(_, _, _, _, _, _, _, _)
Comma(s, i, depth, comment, quoted, canInline, start, out) ==
    IF i > Len(s) THEN out
    ELSE LET ch == s[i]
             Go(d, cmt, qt, ci, st, o) == Comma(s, i + 1, d, cmt, qt, ci, st, o)
             Same == Go(depth, comment, quoted, canInline, start, out)
         IN
         IF ch = "bs" /\ ~comment /\ i + 1 <= Len(s) THEN Comma(s, i + 2, depth, comment, quoted, canInline, start, out)   \* the escaped character is skipped
         ELSE IF quoted /\ ch \notin {"q", "nl"} THEN Same
         ELSE CASE ch = "q"      -> Go(depth, comment, IF comment THEN quoted ELSE ~quoted, canInline, start, out)
                [] ch \in Open   -> Go(IF comment THEN depth ELSE depth + 1, comment, quoted, canInline, start, out)
                [] ch \in Close  -> Go(IF comment THEN depth ELSE depth - 1, comment, quoted, canInline, start, out)
                [] ch = "h"      -> IF ~comment /\ canInline THEN Go(depth, TRUE, quoted, canInline, i + 1, out) ELSE Same
                [] ch = "nl"     -> IF comment /\ canInline
                                    THEN Go(depth, FALSE, FALSE, FALSE, i, SetLastComment(out, SubSeq(s, start, i - 1)))
                                    ELSE Go(depth, FALSE, FALSE, FALSE, start, out)
                [] ch = "c"      -> IF depth = 0 /\ ~comment /\ ~(i + 1 <= Len(s) /\ s[i + 1] \notin {"s", "nl"})
                                    THEN Go(depth, comment, quoted, TRUE, i + 1, Append(out, [raw |-> Trim(SubSeq(s, start, i - 1)), comment |-> <<>>]))
                                    ELSE Same
                [] OTHER         -> Same
CommaRules(text) == Comma(text, 1, 0, FALSE, FALSE, FALSE, 1, <<>>)

\* ---------------------------------------------------------------- tokenizeRule
Panic == <<<<"PANIC">>>>
RECURSIVE Tok(_, _, _, _, _, _)
Tok(s, i, depth, quoted, cur, out) ==
    IF i > Len(s) THEN (IF cur = <<>> THEN out ELSE Append(out, cur))
    ELSE LET ch == s[i] IN
         CASE ch = "bs" /\ i + 1 <= Len(s)     -> Tok(s, i + 2, depth, quoted, cur \o <<ch, s[i + 1]>>, out)                \* the escaped character is an ordinary one
           [] ch = "s" /\ depth = 0 /\ ~quoted -> Tok(s, i + 1, depth, quoted, <<>>, IF cur = <<>> THEN out ELSE Append(out, cur))
           [] ch = "q" /\ depth = 0            -> Tok(s, i + 1, depth, ~quoted, Append(cur, ch), out)
           [] ch \in Open                      -> Tok(s, i + 1, depth + 1, quoted, Append(cur, ch), out)
           [] ch \in Close                     -> IF depth > 0 THEN Tok(s, i + 1, depth - 1, quoted, Append(cur, ch), out) ELSE Panic
           [] OTHER                            -> Tok(s, i + 1, depth, quoted, Append(cur, ch), out)
Tokens(raw) == Tok(raw, 1, 0, FALSE, <<>>, <<>>)

\* ---------------------------------------------------------------- parseRule (classification of tokens)
IsAARE(t) == t # <<>> /\ t[1] \in {"at", "sl", "q"}
Mangled == <<"MANGLED">>
RECURSIVE Classify(_, _, _, _)
Classify(toks, idx, inAare, res) ==     \* idx is 1-based
    IF idx > Len(toks) THEN res
    ELSE LET t == toks[idx] IN
         CASE IsAARE(t) /\ idx > 1                -> Classify(toks, idx + 1, inAare, Append(res, [key |-> t, comment |-> <<>>]))
           [] "e" \in Range(t) /\ ~inAare         -> Classify(toks, idx + 1, inAare, Append(res, [key |-> Mangled, comment |-> <<>>]))
           [] "o(" \in Range(t) /\ ~inAare        -> Classify(toks, idx + 1, inAare, Append(res, [key |-> Mangled, comment |-> <<>>]))
           [] t[1] = "h"                          -> IF idx > 1 /\ idx < Len(toks) /\ res # <<>>
                                                     THEN [res EXCEPT ![Len(res)].comment = <<"s">> \o JoinWith(SubSeq(toks, idx + 1, Len(toks)), <<"s">>)]
                                                     ELSE Classify(toks, idx + 1, inAare, res)
           [] OTHER                               -> Classify(toks, idx + 1, inAare, Append(res, [key |-> t, comment |-> <<>>]))
ParseRule(raw) == LET toks == Tokens(raw) IN
                  IF toks = Panic THEN Panic
                  ELSE Classify(toks, 1, toks # <<>> /\ (IsAARE(toks[1]) \/ toks[1] = <<"owner">>), <<>>)

\* ---------------------------------------------------------------- newRules + newFile
Err(what) == [err |-> what]
RECURSIVE Strip(_, _, _)
Strip(kvs, qual, owner) ==
    IF kvs # <<>> /\ kvs[1].key = <<"owner">> THEN Strip(Tail(kvs), qual, TRUE)
    ELSE IF kvs # <<>> /\ Len(kvs[1].key) = 1 /\ kvs[1].key[1] \in QualWords THEN Strip(Tail(kvs), Append(qual, kvs[1].key[1]), owner)
    ELSE [kvs |-> kvs, qual |-> qual, owner |-> owner]
\* qualifiers are kept as a set of facts: audit, and the access type (the last one read wins)
QualOf(ws) == [audit |-> "audit" \in Range(ws),
               access |-> LET at == SelectSeq(ws, LAMBDA w : w # "audit") IN IF at = <<>> THEN "" ELSE at[Len(at)]]
ToFile(kvs0, cm) ==
    IF kvs0 = Panic THEN Err("panic")
    ELSE IF kvs0 = <<>> THEN Err("empty rule")
    ELSE LET kvs1 == IF cm # <<>> THEN [kvs0 EXCEPT ![Len(kvs0)].comment = cm] ELSE kvs0
             st   == Strip(kvs1, <<>>, FALSE)
             keys == [i \in DOMAIN st.kvs |-> st.kvs[i].key]
         IN IF keys = <<>> THEN Err("empty rule")
            ELSE IF ~(IsAARE(keys[1]) \/ st.owner) THEN Err("not a file rule")
            ELSE IF Len(keys) < 2 THEN Err("missing file or access")
            ELSE IF Len(keys) > 2 /\ keys[3] # <<"arrow">> THEN Err("missing arrow")
            ELSE IF Len(keys) = 3 THEN Err("panic")
            ELSE [qual |-> QualOf(st.qual), owner |-> st.owner, path |-> keys[1], access |-> keys[2],
                  target |-> IF Len(keys) > 3 THEN keys[4] ELSE <<>>, comment |-> st.kvs[Len(st.kvs)].comment]
\* ParseRules(text + two newlines): one paragraph
ParseText(text) == LET crs == CommaRules(text \o <<"nl", "nl">>) IN
                   [i \in DOMAIN crs |-> ToFile(ParseRule(crs[i].raw), crs[i].comment)]

\* what must come back for a printed rule
Want(r) == [qual |-> QualOf(r.qual), owner |-> r.owner, path |-> Quote(r.path), access |-> <<"acc">>,
            target |-> Quote(r.target), comment |-> r.comment]
C09Design(rs) == ParseText(PrintBlock(rs)) = [i \in DOMAIN rs |-> Want(rs[i])]
=============================================================================
