-------------------------------- MODULE Rules --------------------------------
(* C10 / C11: merging and ordering of rule lists (pkg/aa/rules.go).               *)
(* Abstract rule  [k (kind), q (qualifier), s (subject: every field that is not a  *)
(* value list), d (sequence of the rule's value lists, each a set; an empty list   *)
(* means "all" and is written {"*"})].                                             *)
(* Facts(rs): the (kind, qualifier, subject, permission tuple) facts a list        *)
(* expresses - the cross product of a rule's value lists.                          *)
(* Rules.Merge: for i, for j > i: same kind -> if Compare = 0 delete j, else if    *)
(* r[i].Merge(r[j]) delete j.  The loop preserves Facts exactly when               *)
(*   A1  Compare(a, b) = 0  =>  a and b are identical                              *)
(*   A2  a.Merge(b) succeeds => same kind, qualifier and subject, the lists differ *)
(*       in at most one position, and a becomes the position-wise union            *)
(* TLC checks the loop under A1/A2 (MC_Rules); the trace spec checks A1/A2 and the *)
(* end-to-end equality on the REAL Compare / Merge.                                *)
EXTENDS Policy, SequencesExt, FiniteSets

\* an empty value list means "all": it stands for every value of the universe U (all values that
\* occur at that position in the lists compared, plus one value that occurs nowhere)
Star(S, U) == IF S = {} THEN U \cup {"<any other>"} ELSE S
RECURSIVE Cross(_, _)
Cross(d, U) == IF d = <<>> THEN {<<>>} ELSE {<<x>> \o t : x \in Star(d[1], U), t \in Cross(Tail(d), U)}
FactsOf(r, U) == {<<r.k, r.q, r.s, t>> : t \in Cross(r.d, U)}
Facts(rs, U)  == UNION {FactsOf(rs[i], U) : i \in DOMAIN rs}
ValuesIn(rs)  == UNION {UNION {rs[i].d[p] : p \in DOMAIN rs[i].d} : i \in DOMAIN rs}

DiffPos(a, b)   == {i \in DOMAIN a.d : a.d[i] # b.d[i]}
Mergeable(a, b) == a.k = b.k /\ a.q = b.q /\ a.s = b.s /\ Len(a.d) = Len(b.d) /\ Cardinality(DiffPos(a, b)) <= 1 /\ a.mergekind
\* position-wise union, where "all" (the empty list) absorbs
Join(a, b)      == [a EXCEPT !.d = [i \in DOMAIN a.d |-> IF a.d[i] = {} \/ b.d[i] = {} THEN {} ELSE a.d[i] \cup b.d[i]]]
RemoveAt1(s, j) == SubSeq(s, 1, j - 1) \o SubSeq(s, j + 1, Len(s))

\* ---------------------------------------------------------------- order axioms on a matrix
Sgn(x) == IF x < 0 THEN 0 - 1 ELSE IF x > 0 THEN 1 ELSE 0
AntiSym(m)  == \A i, j \in DOMAIN m : Sgn(m[i][j]) = 0 - Sgn(m[j][i])
Trans(m)    == \A i, j, k \in DOMAIN m : (m[i][j] <= 0 /\ m[j][k] <= 0) => m[i][k] <= 0
ZeroSame(m, same) == \A i, j \in DOMAIN m : m[i][j] = 0 => same[i][j]
BadAnti(m)  == {<<i, j>> \in (DOMAIN m) \X (DOMAIN m) : i < j /\ Sgn(m[i][j]) # 0 - Sgn(m[j][i])}
BadTrans(m) == {<<i, j, k>> \in (DOMAIN m) \X (DOMAIN m) \X (DOMAIN m) : m[i][j] <= 0 /\ m[j][k] <= 0 /\ m[i][k] > 0}
BadZero(m, same) == {<<i, j>> \in (DOMAIN m) \X (DOMAIN m) : i < j /\ m[i][j] = 0 /\ ~same[i][j]}
=============================================================================
