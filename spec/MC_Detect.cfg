SPECIFICATION Spec
INVARIANTS Design Lead Emit
CHECK_DEADLOCK FALSE
