SPECIFICATION Spec
INVARIANTS FactsKept Emit
CHECK_DEADLOCK FALSE
