SPECIFICATION Spec
INVARIANT C09
CHECK_DEADLOCK FALSE
