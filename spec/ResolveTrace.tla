---------------------------- MODULE ResolveTrace ----------------------------
(* Replays real AppArmorProfileFile.Parse + Resolve results on generated         *)
(* preambles against the reference semantics of Resolve.tla.                     *)
EXTENDS Resolve, Json, IOUtils

Trace == ndJsonDeserialize(IOEnv.VERIF_TRACE)
VARIABLES l, ev
TInit == l = 1 /\ ev = [ev |-> "init"]
TNext == l <= Len(Trace) /\ l' = l + 1 /\ ev' = Trace[l]
TSpec == TInit /\ [][TNext]_<<l, ev>>

Rep(what, d) == PrintT("VIOL " \o ToJson([p |-> "C13", id |-> ev.id, what |-> what, d |-> d]))
OrderedKept(pre) == LET s == SelectSeq(pre, LAMBDA it : it.k \in {"cmt", "inc"}) IN [i \in DOMAIN s |-> s[i].id]
SetKept(pre)     == {pre[i].id : i \in {j \in DOMAIN pre : pre[j].k \in {"abi", "alias"}}}
RVals(n) == LET idx == {i \in DOMAIN ev.rvars : ev.rvars[i].name = n} IN UNION {SeqToSet(ev.rvars[i].vals) : i \in idx}

C13 == (ev.ev = "resolve" /\ ev.judged) =>
    /\ (ev.outcome # "panic" \/ Rep("resolve crashed instead of reporting an error or a result", ev.outcome))
    /\ (ev.outcome = "panic" \/ (RefOutcome(ev.pre, ev.atts) = "error") = (ev.outcome = "error")
           \/ Rep("error reporting differs from the reference: undefined / self-referential / doubly defined variables are errors, everything else is not", [want |-> RefOutcome(ev.pre, ev.atts), got |-> ev.outcome]))
    /\ (ev.outcome = "ok" /\ RefOutcome(ev.pre, ev.atts) = "ok") =>
          /\ (\A n \in Defined(ev.pre) : RVals(n) = StringsOfVar(ev.pre, n))
                \/ Rep("resolved values are not the plain substitution of all values (appends included)", [n \in Defined(ev.pre) |-> [want |-> StringsOfVar(ev.pre, n), got |-> RVals(n)]])
          /\ (SeqToSet(ev.ratts) = StringsOfAtts(ev.pre, ev.atts)
                \/ Rep("resolved attachments are not the plain substitution", [want |-> StringsOfAtts(ev.pre, ev.atts), got |-> ev.ratts]))
          /\ ((ev.rkept = OrderedKept(ev.pre) /\ SeqToSet(ev.rset) = SetKept(ev.pre))
                \/ Rep("a comment / include / abi / alias rule of the preamble was lost, duplicated or reordered", [want |-> OrderedKept(ev.pre), got |-> ev.rkept]))
\* history independence: resolving the same text before and after other files were resolved in
\* the same process gives the same result (nothing leaks through shared tables)
C13Hist == ev.ev = "hist" => (ev.a = ev.b \/ Rep("resolving a file gives another result after an unrelated file was resolved in the same process", [before |-> ev.a, after |-> ev.b]))
\* expectations computed from other real runs (a default variable with and without an append, a profile alone
\* and next to others): the two must agree
C13Expect == ev.ev = "expect" => (ev.want = ev.got \/ Rep(ev.what, [want |-> ev.want, got |-> ev.got]))
\* C06: the built attachment / the generated exec rules match exactly what @{exec_path} matches
\* (witness paths computed by the AARE matcher over the shipped tunables)
RepP(p, what, d) == PrintT("VIOL " \o ToJson([p |-> p, id |-> ev.id, what |-> what, d |-> d]))
C06 == ev.ev = "attach" =>
    /\ (ev.error = "" \/ RepP("C06", "the patterns could not be compared", ev.error))
    /\ (ev.lost = <<>>  \/ RepP("C06", "paths matched by @{exec_path} under the shipped tunables are not matched by what the build wrote", ev.lost))
    /\ (ev.added = <<>> \/ RepP("C06", "the build wrote a pattern that matches paths @{exec_path} does not", ev.added))
Accepted == TLCGet("stats").diameter = Len(Trace) + 1
=============================================================================
