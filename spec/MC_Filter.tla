------------------------------ MODULE MC_Filter ------------------------------
(* Bounded universe for C03: files of up to MaxLen lines over a menu (plain rule, *)
(* inline-guarded rule, paragraph opener at two indentations, blank, close) with  *)
(* filters drawn from distribution / family / ABI / version names, x every        *)
(* (distribution, ABI, version).  TLC explores the algorithm model against the    *)
(* reference and prints every explored file once (BEH) for replay through the     *)
(* real directive.Run.                                                            *)
EXTENDS Filter, Json, IOUtils, TLCExt

VARIABLES src, cfg, text, k
vars == <<src, cfg, text, k>>

MaxLen == IF "VERIF_FILTER_LEN" \in DOMAIN IOEnv THEN atoi(IOEnv.VERIF_FILTER_LEN) ELSE 4
\* (several filters: any one of them that names the target decides, whatever stands in front of it)
FilterSets == {<<"arch">>, <<"apt">>, <<"abi3">>, <<"apparmor4.1">>, <<"apparmor4.0">>, <<"debian", "zypper">>,
               <<"abi4", "debian">>, <<"apparmor3.0", "pacman">>, <<"opensuse", "abi4", "apparmor3.0">>}
\* (no list is a prefix of another one: a directive whose line is the beginning of another directive's line is
\* outside the contract - the literal replacement of the shorter line would cut the longer one; lead, DESIGN 7)
Ln(kk, key, dk, fs, ind) == [k |-> kk, key |-> key, dk |-> dk, fs |-> fs, ind |-> ind]
Menu == {Ln("line", "r1", "", <<>>, 0), Ln("line", "r2", "", <<>>, 0), Ln("blank", "", "", <<>>, 0), Ln("close", "}", "", <<>>, 0)}
   \cup {Ln("inl", "g1", dk, fs, 1) : dk \in {"only", "exclude"}, fs \in FilterSets}
   \cup {Ln("open", "", dk, fs, ind) : dk \in {"only", "exclude"}, fs \in {<<"arch">>, <<"apt">>, <<"abi3">>}, ind \in {1, 2}}
\* guarded paragraphs that hold an inline-guarded rule above their last line (whatever MaxLen is)
Nested == {<<o, i, Ln("line", "r1", "", <<>>, 0), Ln("blank", "", "", <<>>, 0)>> :
              o \in {m \in Menu : m.k = "open" /\ m.ind = 1}, i \in {m \in Menu : m.k = "inl"}}
     \cup {<<o, Ln("line", "r2", "", <<>>, 0), i, Ln("line", "r1", "", <<>>, 0), Ln("blank", "", "", <<>>, 0)>> :
              o \in {m \in Menu : m.k = "open" /\ m.ind = 1}, i \in {m \in Menu : m.k = "inl"}}
\* guarded paragraphs that hold a compact nested block (sub-profile written without blank lines)
Blocks == {<<o, Ln("bopen", "sub", "", <<>>, 0), Ln("line", "r1", "", <<>>, 0), Ln("close", "}", "", <<>>, 0), Ln("line", "r2", "", <<>>, 0), Ln("blank", "", "", <<>>, 0)>> :
              o \in {m \in Menu : m.k = "open" /\ m.ind = 1}}
Files == UNION {[1..n -> Menu] : n \in 1..MaxLen} \cup Nested \cup Blocks
MCCfgs == [dist : {"arch", "debian", "opensuse"}, abi : {3, 4}, ver : {"3.0", "4.0", "4.1"}, mode : {"none"}, full : {FALSE}]

Init == src \in Files /\ cfg \in MCCfgs /\ text = src /\ k = 1
Step == /\ k <= Len(Dirs(src))
        /\ text' = AlgoStep(text, Dirs(src)[k], cfg)
        /\ k' = k + 1 /\ UNCHANGED <<src, cfg>>
Spec == Init /\ [][Step]_vars
Done == k > Len(Dirs(src))

Lead(name, ok) == ok \/ PrintT("LEAD " \o name \o " " \o ToJson([cfg |-> cfg, src |-> src, out |-> text]))
\* design check: inside the input contract the algorithm gives the reference result
Leads == Done /\ FileInContract(src) => Lead("C03", FileOK(src, text, cfg))
\* every file is printed once (under the first configuration) for replay
EmitLen == IF "VERIF_FILTER_EMITLEN" \in DOMAIN IOEnv THEN atoi(IOEnv.VERIF_FILTER_EMITLEN) ELSE 3
Emit == (k = 1 /\ (Len(src) <= EmitLen \/ src \in Nested \/ src \in Blocks) /\ cfg = [dist |-> "arch", abi |-> 3, ver |-> "3.0", mode |-> "none", full |-> FALSE] /\ Dirs(src) # <<>>)
           => PrintT("BEH " \o ToJson([src |-> src, contract |-> FileInContract(src)]))
==============================================================================
