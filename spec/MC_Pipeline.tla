---------------------------- MODULE MC_Pipeline ----------------------------
(* Three files, a host that stacks a profile sorting AFTER it and one sorting  *)
(* before it; two prepare tasks, two builders.  MC_Pipeline.cfg: the two-pass   *)
(* design satisfies ReadsBuilt; MC_Pipeline_onepass.cfg: the pinned one-pass    *)
(* design violates it (expected - the harness checks that TLC says so).         *)
EXTENDS Pipeline
MCPrepares == <<"synchronise", "setflags">>
MCBuilders == <<"userspace", "fsp">>
MCOrder == <<"a-early", "m-host", "z-late">>
MCReads == [f \in {"a-early", "m-host", "z-late"} |-> IF f = "m-host" THEN {"a-early", "z-late"} ELSE {}]
=============================================================================
