SPECIFICATION TSpec
INVARIANTS C09Rule C09File C12Meaning
POSTCONDITION Accepted
CHECK_DEADLOCK FALSE
