---------------------------- MODULE MC_StrOrder ----------------------------
EXTENDS StrOrder, TLC
VARIABLE done
Strs == UNION {[1..n -> SChars] : n \in 0..2}
Init == done = FALSE
Next == done' = TRUE
Spec == Init /\ [][Next]_done
Total == TotalOrder(Strs)
=============================================================================
