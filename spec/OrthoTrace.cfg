SPECIFICATION TSpec
INVARIANTS C18Diff C18Count
POSTCONDITION Accepted
CHECK_DEADLOCK FALSE
