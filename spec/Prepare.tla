------------------------------- MODULE Prepare -------------------------------
(* C04: the prepare stage conserves the policy set.                             *)
(* Reference semantics ExpectedOut: what .build/apparmor.d and .build/systemd    *)
(* must hold after the prepare chain, as a function of the source listing, the   *)
(* manifests and the configuration.  Paths are sequences of components.          *)
(*   source entry  [segs (path below apparmor.d), h (content hash),              *)
(*                  hm (hash with every flags=(..) clause masked)]               *)
(*   output entry  [segs (path below .build), t ("f" | "l"), h, hm, l (link)]    *)
EXTENDS Policy, SequencesExt, FiniteSets

IsPrefix2(p, s) == Len(p) <= Len(s) /\ SubSeq(s, 1, Len(p)) = p

\* ---- ignore ("one ignore by line, it can be a profile name or a directory to ignore"): path form (a
\* subtree of the source) or name form: a PROFILE (an entry of groups/<g>/ or profiles-*-*/) with a
\* component of that name. A name entry does not reach abstractions, tunables or mappings that happen
\* to share the name (the implementation deletes by name over the whole tree: on the shipped lists the
\* two readings coincide, a new entry such as "fusermount" would lose abstractions/app/fusermount).
IgnoredBy(e, g) == IF g.path THEN IsPrefix2(g.segs, <<"apparmor.d">> \o e.segs)
                   ELSE e.kind \in {"group", "profiles"} /\ \E i \in DOMAIN e.segs : e.segs[i] = g.name
Ignored(e, ign) == \E i \in DOMAIN ign : IgnoredBy(e, ign[i])

\* ---- merge: groups/<g>/<x..> and profiles-*-*/<x..> are moved to the root
\* (kind: "group" for groups/<g>/.., "profiles" for profiles-*-*/.., "other"; read lexically by the harness)
FlatE(e) == IF e.kind = "group" /\ Len(e.segs) >= 3 THEN SubSeq(e.segs, 3, Len(e.segs))
            ELSE IF e.kind = "profiles" /\ Len(e.segs) >= 2 THEN SubSeq(e.segs, 2, Len(e.segs))
            ELSE e.segs

Removed41 == {<<"abstractions", "devices-usb-read">>, <<"abstractions", "devices-usb">>,
              <<"abstractions", "nameservice-strict">>, <<"tunables", "multiarch.d", "base">>, <<"wg">>}
NeedsUbuntuCopy(c) == c.dist \in {"debian", "whonix"} /\ c.ver # "4.1"

\* the expected set of [segs, kind, id] below .build/apparmor.d ; id = content identity
Survivors(in) == {i \in DOMAIN in.src : ~Ignored(in.src[i], in.ignore)}
FlatPaths(in) == {FlatE(in.src[i]) : i \in Survivors(in)}
\* two surviving source entries that collapse onto one output name (computed only when the counts differ)
\* ... or, in a full-system-policy build, a file of the _full group that has the output name of a surviving profile
FullClashes(in) == IF in.cfg.full THEN {p \in FlatPaths(in) : \E i \in DOMAIN in.fullfiles : in.fullfiles[i].segs = p} ELSE {}
Clashes(in) == (IF Cardinality(FlatPaths(in)) = Cardinality(Survivors(in)) THEN {}
                ELSE {p \in FlatPaths(in) : Cardinality({i \in Survivors(in) : FlatE(in.src[i]) = p}) > 1})
               \cup FullClashes(in)

ExpFiles(in) ==
    LET c == in.cfg
        base == {[segs |-> FlatE(in.src[i]), id |-> in.src[i].h, idm |-> in.src[i].hm, flagged |-> FALSE] : i \in Survivors(in)}
        ubuntu == IF NeedsUbuntuCopy(c)
                  THEN {[segs |-> in.ubuntu[i].segs, id |-> in.ubuntu[i].h, idm |-> in.ubuntu[i].hm, flagged |-> FALSE] : i \in DOMAIN in.ubuntu} ELSE {}
        full == IF c.full THEN {[segs |-> in.fullfiles[i].segs, id |-> in.fullfiles[i].h, idm |-> in.fullfiles[i].hm, flagged |-> FALSE] : i \in DOMAIN in.fullfiles} ELSE {}
        all1 == base \cup ubuntu
        all2 == IF c.ver = "4.1" THEN {e \in all1 : \A r \in Removed41 : ~IsPrefix2(r, e.segs)} ELSE all1
        all3 == all2 \cup full
        ow   == SeqToSet(in.overwrite)
        ren(e) == IF c.abi = 4 /\ Len(e.segs) = 1 /\ e.segs[1] \in ow THEN [e EXCEPT !.segs = <<e.segs[1] \o ".apparmor.d">>] ELSE e
        man  == SeqToSet(in.flagged)
        fl(e) == IF Len(e.segs) = 1 /\ e.segs[1] \in man THEN [e EXCEPT !.flagged = TRUE] ELSE e
    IN  {ren(fl(e)) : e \in all3}
ExpLinks(in) == IF in.cfg.abi = 4 THEN {[segs |-> <<"disable", in.overwrite[i]>>, l |-> "../" \o in.overwrite[i]] : i \in DOMAIN in.overwrite} ELSE {}   \* points at the UPSTREAM name

\* output entries below apparmor.d
OutFiles(in) == {in.out[i] : i \in {j \in DOMAIN in.out : in.out[j].t = "f" /\ in.out[j].segs[1] = "apparmor.d"}}
OutLinks(in) == {in.out[i] : i \in {j \in DOMAIN in.out : in.out[j].t = "l" /\ in.out[j].segs[1] = "apparmor.d"}}
Tail1(s) == SubSeq(s, 2, Len(s))
Edited(in) == IF in.cfg.full THEN {<<"tunables", "multiarch.d", "profiles">>, <<"abstractions", "gstreamer">>} ELSE {}

ExpPaths(in)  == {e.segs : e \in ExpFiles(in)}
OutPaths(in)  == {Tail1(o.segs) : o \in OutFiles(in)}
Missing(in)   == ExpPaths(in) \ OutPaths(in)
Leaked(in)    == OutPaths(in) \ ExpPaths(in)
ExpPairs(in)  == {<<e.segs, IF e.flagged THEN <<"m", e.idm>> ELSE <<"h", e.id>>>> : e \in ExpFiles(in)}
OutPairs(in)  == {<<Tail1(o.segs), <<"h", o.h>>>> : o \in OutFiles(in)} \cup {<<Tail1(o.segs), <<"m", o.hm>>>> : o \in OutFiles(in)}
Altered(in)   == {p[1] : p \in ExpPairs(in) \ OutPairs(in)} \ (Missing(in) \cup Edited(in))
LinkPairs(S) == {<<x.segs, x.l>> : x \in S}
BadLinks(in) == LET E == LinkPairs(ExpLinks(in))
                    O == {<<Tail1(o.segs), o.l>> : o \in OutLinks(in)}
                IN  {p[1] : p \in (E \ O) \cup (O \ E)}

\* systemd drop-ins: default + (full ? full : early)
ExpSystemd(in) == {in.sd_default[i] : i \in DOMAIN in.sd_default}
             \cup (IF in.cfg.full THEN {in.sd_full[i] : i \in DOMAIN in.sd_full} ELSE {in.sd_early[i] : i \in DOMAIN in.sd_early})
OutSystemd(in) == {[segs |-> Tail1(in.out[i].segs), h |-> in.out[i].h] : i \in {j \in DOMAIN in.out : in.out[j].segs[1] = "systemd"}}
\* a unit present in two sets: the later copy wins (full/early over default)
SystemdOK(in) == /\ {e.segs : e \in ExpSystemd(in)} = {o.segs : o \in OutSystemd(in)}
                 /\ OutSystemd(in) \subseteq {[segs |-> e.segs, h |-> e.h] : e \in ExpSystemd(in)}
=============================================================================
