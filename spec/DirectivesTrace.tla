--------------------------- MODULE DirectivesTrace ---------------------------
(* Replays directive applications of REAL builds (hook events "directive": raw    *)
(* line, text before, text after) and whole-tree comparisons against Directives.  *)
(*   dbus / exec / stack   one application, projected                             *)
(*   leftover              a "#aa:" line in a written file                        *)
(*   same                  two outputs that must be byte-identical (C02)          *)
(*   blocks                the (name, flags) of the blocks of a file, wanted / got *)
EXTENDS Directives, Json, IOUtils

Trace == ndJsonDeserialize(IOEnv.VERIF_TRACE)
VARIABLES l, ev
TInit == l = 1 /\ ev = [ev |-> "init"]
TNext == l <= Len(Trace) /\ l' = l + 1 /\ ev' = Trace[l]
TSpec == TInit /\ [][TNext]_<<l, ev>>

Rep(p, what, d) == PrintT("VIOL " \o ToJson([p |-> p, id |-> ev.id, what |-> what, d |-> d]))
C07Dbus  == ev.ev = "dbus"  => (DbusOK(ev.d, ev.rules) \/ Rep("C07", "dbus directive did not expand to the documented rule family", ev.d))
C07Exec  == ev.ev = "exec"  => (ExecOK(ev.d, ev.rules) \/ Rep("C07", "exec directive: not one rule with the requested transition per executable of each named profile", [d |-> ev.d, rules |-> ev.rules]))
C07Stack == ev.ev = "stack" => (StackOK(ev.d, ev.before, ev.after, ev.targets) \/ Rep("C07", "stack directive: host is not its own rules plus every rule of the stacked profiles (minus base include, entry point, and exec transitions unless X) in the order given", ev.d))
C07Left  == ev.ev = "leftover" => Rep("C07", "a #aa: directive remains in a written file", ev.line)
C02Same  == ev.ev = "same" => (SameBytes(ev.a, ev.b) \/ Rep("C02", ev.what, [a |-> ev.a, b |-> ev.b]))
\* C05 on builds asked for in another way (one group with --file <directory>; profiles a builder fails on): the
\* flags of every block are those the mode and the manifests give it in the whole build
C05Blocks == ev.ev = "blocks" => (ev.want = ev.got \/ Rep("C05", ev.what, [want |-> ev.want, got |-> ev.got]))
Accepted == TLCGet("stats").diameter = Len(Trace) + 1
==============================================================================
