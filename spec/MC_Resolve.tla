----------------------------- MODULE MC_Resolve -----------------------------
(* Bounded universe for C13/C06: every preamble of up to MaxLen items over a     *)
(* menu (comment, abi, include, definitions and appends of variables a, b and    *)
(* exec_path with nested / double / self / undefined references) with the        *)
(* attachment @{exec_path}.  TLC runs the fold model against the reference and   *)
(* prints each preamble (BEH) for replay through the real Parse + Resolve.       *)
EXTENDS Resolve, Json, IOUtils, TLCExt

VARIABLES pre, k, folded
vars == <<pre, k, folded>>
MaxLen == IF "VERIF_RESOLVE_LEN" \in DOMAIN IOEnv THEN atoi(IOEnv.VERIF_RESOLVE_LEN) ELSE 4

L(s) == [t |-> "lit", s |-> s]
R(n) == [t |-> "ref", s |-> n]
It(kk, name, def, vals) == [k |-> kk, id |-> 0, name |-> name, define |-> def, values |-> vals]
Menu == { It("cmt", "", FALSE, <<>>), It("inc", "", FALSE, <<>>), It("abi", "", FALSE, <<>>),
          It("var", "a", TRUE,  << <<L("/p")>> >>),
          It("var", "a", TRUE,  << <<L("/p")>>, <<L("/q")>> >>),
          It("var", "a", FALSE, << <<L("/r")>> >>),
          It("var", "b", TRUE,  << <<R("a"), L("/s")>> >>),
          It("var", "b", FALSE, << <<R("a"), R("a")>> >>),
          It("var", "exec_path", TRUE,  << <<R("b")>> >>),
          It("var", "exec_path", TRUE,  << <<R("a"), L("/x")>>, <<L("/y")>> >>),
          It("var", "exec_path", FALSE, << <<L("/t")>> >>),
          It("var", "exec_path", TRUE,  << <<L("/o"), R("a"), R("b")>> >>),      \* diamond: a directly and through b
          It("var", "exec_path", FALSE, << <<R("b"), L("/u")>> >>),
          It("var", "a", TRUE,  << <<R("a"), L("/p")>> >>),
          It("var", "exec_path", TRUE,  << <<R("nodef")>> >>),
          \* colliding expansions: the same value twice, values that are repetitions of one another under several references
          It("var", "a", FALSE, << <<L("/p")>> >>),
          It("var", "a", TRUE,  << <<L("/3")>>, <<L("/3/3")>> >>),
          It("var", "exec_path", TRUE,  << <<L("/o"), R("a"), R("a"), R("a")>> >>),
          \* an error in a variable the attachment does not use: it must be reported all the same
          It("var", "b", TRUE,  << <<R("nodef"), L("/s")>> >>),
          \* names related by prefix (a / ab), and the parser's built-in name the library does not know
          It("var", "ab", TRUE, << <<L("/w")>> >>),
          \* a value a template or format function would misread
          It("var", "a", FALSE, << <<L("/t$1%s")>> >>),
          It("var", "a", TRUE,  << <<R("ab"), L("/x")>> >>),
          It("var", "exec_path", TRUE, << <<L("/o"), R("profile_name"), R("a")>> >>) }
Atts == << <<R("exec_path")>> >>

\* the preamble is built item by item, so that TLC's workers share the exploration
Init == pre = <<>> /\ k = 0 /\ folded = [pre |-> <<>>, out |-> "none"]
Extend == /\ k = 0 /\ Len(pre) < MaxLen
          /\ \E it \in Menu : pre' = Append(pre, [it EXCEPT !.id = Len(pre) + 1])
          /\ UNCHANGED <<k, folded>>
Fold == k = 0 /\ pre # <<>> /\ k' = 1 /\ folded' = FoldNew(pre, 1, <<>>, [n \in {"a", "b", "ab", "nodef", "profile_name", "exec_path"} |-> 0]) /\ UNCHANGED pre
Spec == Init /\ [][Extend \/ Fold]_vars

Judged == ~AppendBeforeDef(pre) /\ ~Cyclic(pre)
Lead(name, ok) == ok \/ PrintT("LEAD " \o name \o " " \o ToJson(pre))
\* design check: the fold keeps every non-variable item in order, one entry per variable, with the
\* definition's and the appends' values in order; it reports exactly the double definitions
Leads == (k = 1 /\ Judged) =>
          /\ Lead("double", (folded.out = "error") = DoubleDef(pre))
          /\ (folded.out = "ok" =>
                /\ Lead("nonvars", KeptIds(folded.pre) = KeptIds(pre))
                /\ Lead("values", \A n \in Names(pre) : ValuesOf(folded.pre, n) = ValuesOf(pre, n))
                /\ Lead("entries", \A n \in Defined(pre) : Cardinality({i \in DOMAIN folded.pre : IsVar(folded.pre[i]) /\ folded.pre[i].name = n}) = 1))
Emit == k = 1 => PrintT("BEH " \o ToJson([pre |-> pre, judged |-> Judged]))
=============================================================================
