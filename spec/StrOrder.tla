------------------------------ MODULE StrOrder ------------------------------
(* C11 at the level of characters: the string comparison every rule kind is    *)
(* ordered by (pkg/aa/util.go:compare).                                        *)
(* A character is known by  W  its weight in the sort alphabet (0 = outside,   *)
(* like '!' which is the alphabet's first),  V  the rank of its byte value,    *)
(* Low its lower-case form:                                                     *)
(*   sp ' '   ex '!'   dot '.'   d1 '1'   d2 '2'   B 'B'   b 'b'   c 'c'        *)
(*   e1 'è'   e2 'é'  (two bytes each, the same first byte)                     *)
(* As coded: strings equal up to case are ordered by their bytes; otherwise    *)
(* the lower-cased strings are compared at the first differing character by    *)
(* weight, then (equal weight = both outside the alphabet) by byte value; a    *)
(* proper prefix comes first.  Cmp is a total order; Sgn(real) must satisfy    *)
(* the order axioms (C11) and should equal Sgn(Cmp) (DRIFT otherwise).         *)
EXTENDS Integers, Sequences, FiniteSets

SChars == {"sp", "ex", "dot", "d1", "d2", "B", "b", "c", "e1", "e2"}
W == [sp |-> 0, ex |-> 0, dot |-> 1, d1 |-> 2, d2 |-> 3, B |-> 4, b |-> 4, c |-> 5, e1 |-> 0, e2 |-> 0]
V == [sp |-> 1, ex |-> 2, dot |-> 3, d1 |-> 4, d2 |-> 5, B |-> 6, b |-> 7, c |-> 8, e1 |-> 9, e2 |-> 10]
Low(ch) == IF ch = "B" THEN "b" ELSE ch
LowS(s) == [i \in DOMAIN s |-> Low(s[i])]
SgnI(x) == IF x < 0 THEN 0 - 1 ELSE IF x > 0 THEN 1 ELSE 0
\* first index where two sequences differ, 0 if one is a prefix of the other
FirstDiff(a, b) == LET m == IF Len(a) < Len(b) THEN Len(a) ELSE Len(b)
                       D == {i \in 1..m : a[i] # b[i]}
                   IN IF D = {} THEN 0 ELSE CHOOSE i \in D : \A j \in D : i <= j
RawCmp(a, b) == LET i == FirstDiff(a, b) IN IF i = 0 THEN SgnI(Len(a) - Len(b)) ELSE SgnI(V[a[i]] - V[b[i]])
LowCmp(a, b) == LET i == FirstDiff(a, b) IN
                IF i = 0 THEN SgnI(Len(a) - Len(b))
                ELSE IF W[a[i]] # W[b[i]] THEN SgnI(W[a[i]] - W[b[i]]) ELSE SgnI(V[a[i]] - V[b[i]])
Cmp(a, b) == IF LowS(a) = LowS(b) THEN RawCmp(a, b) ELSE LowCmp(LowS(a), LowS(b))
\* design check: Cmp is a total order on a set of strings
TotalOrder(S) == /\ \A a, b \in S : Cmp(a, b) = 0 - Cmp(b, a)
                 /\ \A a, b \in S : Cmp(a, b) = 0 => a = b
                 /\ \A a, b, c \in S : (Cmp(a, b) <= 0 /\ Cmp(b, c) <= 0) => Cmp(a, c) <= 0
=============================================================================
