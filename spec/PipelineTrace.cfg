SPECIFICATION TSpec
CONSTANTS
  Prepares <- TPrepares
  Builders <- TBuilders
  Order <- TOrder
  Reads <- TReads
  TwoPass = TRUE
INVARIANTS ReadsBuilt WriteAfterBuild Complete
POSTCONDITION Accepted
CHECK_DEADLOCK FALSE
