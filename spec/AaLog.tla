-------------------------------- MODULE AaLog --------------------------------
(* C14: aa-log as a stream processor (pkg/logs/loggers.go, logs.go, cmd/aa-log). *)
(* Input line  [cls ("ALLOWED"|"DENIED"|"AUDIT"|"STATUS"|"foreign"|"blank"|        *)
(*              "garbled"|"long"), id (marker), cid (content identity: equal for  *)
(*              records that differ only in timestamp and pid), prof (profile     *)
(*              name as a sequence of characters), noise (touches a documented    *)
(*              base-abstraction noise path), viaLabel (dbus record: label=)]     *)
(* Reference Reported(input, filter): the selected records (an AppArmor event     *)
(* class, profile/label starts with the filter, not noise), first occurrence of   *)
(* each content identity, in input order.                                         *)
(* Algorithm model: one pass over the lines - select, clean, append - then an     *)
(* order-preserving de-duplication. ScannerLimit = TRUE models the pinned          *)
(* bufio.Scanner behaviour: reading stops for good at the first line > 64 KiB.    *)
EXTENDS Policy, SequencesExt, FiniteSets

CONSTANT ScannerLimit
Events == {"ALLOWED", "DENIED", "AUDIT"}
IsEvent(ln) == ln.cls \in Events \/ ln.cls \in {"long", "trunc"}   \* a very long / a truncated line is still an event record
PrefixOf(f, p) == Len(f) <= Len(p) /\ SubSeq(p, 1, Len(f)) = f
Selected(ln, f) == IsEvent(ln) /\ ~ln.noise /\ PrefixOf(f, ln.prof)

RECURSIVE Dedup(_, _)
Dedup(s, seen) == IF s = <<>> THEN <<>>
                  ELSE IF s[1].cid \in seen THEN Dedup(Tail(s), seen)
                  ELSE <<s[1]>> \o Dedup(Tail(s), seen \cup {s[1].cid})
Ids(s) == [i \in DOMAIN s |-> s[i].id]
Reported(input, f) == Ids(Dedup(SelectSeq(input, LAMBDA ln : Selected(ln, f)), {}))

\* ---- algorithm: position, stopped flag, kept lines
VARIABLES input, filter, pos, stopped, kept
avars == <<input, filter, pos, stopped, kept>>
ScanLine == /\ ~stopped /\ pos <= Len(input)
            /\ IF ScannerLimit /\ input[pos].cls = "long" THEN stopped' = TRUE /\ UNCHANGED kept
               ELSE /\ kept' = IF Selected(input[pos], filter) THEN Append(kept, input[pos]) ELSE kept
                    /\ UNCHANGED stopped
            /\ pos' = pos + 1 /\ UNCHANGED <<input, filter>>
Finished == stopped \/ pos > Len(input)
Output   == Ids(Dedup(kept, {}))
C14 == Finished => Output = Reported(input, filter)
=============================================================================
