SPECIFICATION Spec
CONSTANTS
  Prepares <- MCPrepares
  Builders <- MCBuilders
  Order <- MCOrder
  Reads <- MCReads
  TwoPass = TRUE
INVARIANTS ReadsBuilt WriteAfterBuild Complete
CHECK_DEADLOCK FALSE
