------------------------------ MODULE Builders ------------------------------
(* The build stage of prebuild, per output file:                             *)
(*     text := read f ; for b in Builds : text := b.Apply(text) ; ...        *)
(* Builds is the chain REGISTERED for the configuration (cmd/prebuild        *)
(* main.init registers userspace, hotfix; cli.Configure appends fsp,         *)
(* complain|enforce, abi3).  The chain per configuration and the effect of   *)
(* the regex-list builders on every permission token are NOT typed in here:  *)
(* they are extracted from the real binaries (hook event "chain", and the    *)
(* real builder applied to one-token probes) into Ext, so a change of the    *)
(* registration order or of a pattern changes the model TLC checks.          *)
(*                                                                           *)
(* Abstract file = sequence of items (uniform records):                      *)
(*   t     "hdr" | "decoy" | "exec" | "a4" | "abi"                           *)
(*   hdr   flags (set), nfl (has a flags=(..) clause), shape ("ok" = blank   *)
(*         before the brace), sub (a sub-profile / hat header)               *)
(*   decoy a non-header line that ends in " {" (comment)                     *)
(*   exec  perm (whole permission token, e.g. "rPUx"), tgt (has "-> name")   *)
(*   a4    k (userns|mqueue|io_uring|all), bare (written "  kind..." at      *)
(*         two-space indentation without qualifier), cmted                   *)
(*   abi   v (3|4)                                                           *)
EXTENDS Policy, SequencesExt

CONSTANTS Ext,          \* tables extracted from the real code (record)
          HdrPerLine,   \* TRUE: complain/enforce rewrite each header line on its own
                        \* FALSE: pinned behaviour - first flags=(..) of the FILE decides
          CfgUniverse,  \* configurations explored
          FileUniverse  \* abstract source files explored

VARIABLES cfg, src, file, pc, hist
bvars == <<cfg, src, file, pc, hist>>

NoItem == [t |-> "none", flags |-> {}, nfl |-> 0, shape |-> "ok", sub |-> FALSE,
           perm |-> "", tgt |-> FALSE, k |-> "", bare |-> FALSE, cmted |-> FALSE, v |-> 0,
           rest |-> ""]      \* rest: canonical hash of everything else on the line (name, attachment, path ...)
Hdr(fl, n, s)   == [NoItem EXCEPT !.t = "hdr", !.flags = fl, !.nfl = n, !.sub = s]
Decoy           == [NoItem EXCEPT !.t = "decoy"]
Exec(p, g)      == [NoItem EXCEPT !.t = "exec", !.perm = p, !.tgt = g]
A4(k, b)        == [NoItem EXCEPT !.t = "a4", !.k = k, !.bare = b]
Abi(v)          == [NoItem EXCEPT !.t = "abi", !.v = v]

IsHdrish(it) == it.t \in {"hdr", "decoy"}

\* ---------------------------------------------------------------- extracted tables
ChainKey(c) == c.mode \o "|" \o (IF c.full THEN "full" ELSE "normal") \o "|" \o (IF c.abi = 3 THEN "3" ELSE "4")
Chain(c)    == Ext.chains[ChainKey(c)].builds
PermKey(it) == it.perm \o "|" \o (IF it.tgt THEN "t" ELSE "-")
\* permission token after builder b (identity when b has no table, e.g. userspace)
TokAfter(b, it) == IF b \in DOMAIN Ext.tok /\ PermKey(it) \in DOMAIN Ext.tok[b]
                   THEN Ext.tok[b][PermKey(it)] ELSE it.perm
PermInfo(p) == Ext.perminfo[p]     \* [acc, mode, valid]

\* ---------------------------------------------------------------- builders
MapItems(f, Op(_)) == [i \in DOMAIN f |-> Op(f[i])]

B_tok(b, f) == MapItems(f, LAMBDA it : IF it.t = "exec" THEN [it EXCEPT !.perm = TokAfter(b, it)] ELSE it)

\* pinned complain/enforce: the first flags clause of the file decides for every " {" line
ClauseIdx(f)  == {i \in DOMAIN f : IsHdrish(f[i]) /\ f[i].nfl = 1}
FirstFlags(f) == IF ClauseIdx(f) = {} THEN {} ELSE f[MinOf(ClauseIdx(f))].flags
HasClause(f)  == ClauseIdx(f) # {}

\* " {\n" matches a header-ish line when a blank precedes the brace - which is also
\* the case once a flags clause glued to the brace has been deleted ("x flags=(..){" -> "x {").
Hit(it) == IsHdrish(it) /\ (it.shape = "ok" \/ it.nfl = 1)
B_complain_file(f) ==
    IF HasClause(f) /\ "complain" \in FirstFlags(f) THEN f
    ELSE LET fl == FirstFlags(f) \cup {"complain"} IN
         MapItems(f, LAMBDA it : IF Hit(it) THEN [it EXCEPT !.flags = fl, !.nfl = 1, !.shape = "ok"] ELSE it)
B_enforce_file(f) ==
    IF ~HasClause(f) \/ "complain" \notin FirstFlags(f) THEN f
    ELSE LET fl == FirstFlags(f) \ {"complain"} IN
         MapItems(f, LAMBDA it : IF ~Hit(it) THEN it
                                  ELSE IF fl # {} THEN [it EXCEPT !.flags = fl, !.nfl = 1, !.shape = "ok"]
                                  \* "{\n" replaces " {\n": only a line that had a clause AND a blank before the
                                  \* brace keeps one blank (the one left of the deleted clause)
                                  ELSE [it EXCEPT !.flags = {}, !.nfl = 0,
                                                  !.shape = IF it.nfl = 1 /\ it.shape = "ok" THEN "ok" ELSE "nospace"])

\* per-header-line complain/enforce (the repaired behaviour): comments are not headers
B_complain_line(f) ==
    MapItems(f, LAMBDA it : IF it.t = "hdr" /\ Hit(it) /\ "complain" \notin it.flags
                             THEN [it EXCEPT !.flags = @ \cup {"complain"}, !.nfl = 1, !.shape = "ok"] ELSE it)
B_enforce_line(f) ==
    MapItems(f, LAMBDA it : IF it.t = "hdr" /\ Hit(it) /\ "complain" \in it.flags
                             THEN [it EXCEPT !.flags = @ \ {"complain"}, !.shape = "ok",
                                             !.nfl = IF it.flags \ {"complain"} = {} THEN 0 ELSE 1] ELSE it)

B_complain(f) == IF HdrPerLine THEN B_complain_line(f) ELSE B_complain_file(f)
B_enforce(f)  == IF HdrPerLine THEN B_enforce_line(f)  ELSE B_enforce_file(f)

\* abi3: "abi/4.0" -> "abi/3.0"; "  userns," -> "  # userns,"; "  mqueue" -> "  # mqueue"
B_abi3(f) == MapItems(f, LAMBDA it :
                 IF it.t = "abi" THEN [it EXCEPT !.v = 3]
                 ELSE IF it.t = "a4" /\ it.bare /\ it.k \in {"userns", "mqueue"} THEN [it EXCEPT !.cmted = TRUE]
                 ELSE it)

Apply(b, f) == CASE b = "complain" -> B_complain(f)
                 [] b = "enforce"  -> B_enforce(f)
                 [] b = "abi3"     -> B_abi3(f)
                 [] b \in {"hotfix", "fsp"} -> B_tok(b, f)
                 [] OTHER          -> f            \* userspace / attach do not touch these items

RECURSIVE RunFrom(_, _, _)
RunFrom(chain, k, f) == IF k > Len(chain) THEN f ELSE RunFrom(chain, k + 1, Apply(chain[k], f))
Run(c, f) == RunFrom(Chain(c), 1, f)

\* ---------------------------------------------------------------- state machine
Init == /\ cfg \in CfgUniverse
        /\ src \in FileUniverse
        /\ file = src
        /\ pc = 1
        /\ hist = <<>>

Step(b) == /\ pc <= Len(Chain(cfg)) /\ Chain(cfg)[pc] = b
           /\ file' = Apply(b, file)
           /\ pc' = pc + 1
           /\ hist' = Append(hist, b)
           /\ UNCHANGED <<cfg, src>>

Userspace == Step("userspace")
Hotfix    == Step("hotfix")
Fsp       == Step("fsp")
Complain  == Step("complain")
Enforce   == Step("enforce")
Abi3      == Step("abi3")
Attach    == Step("attach")

Next == Userspace \/ Hotfix \/ Fsp \/ Complain \/ Enforce \/ Abi3 \/ Attach
Spec == Init /\ [][Next]_bvars
Done == pc > Len(Chain(cfg))

\* ---------------------------------------------------------------- reference semantics (the properties)

\* C17: under full-system-policy no rule the source writes as r + {PUx,Ux}
\* without target may still allow the unconfined fallback.
IsFspSource(it) == it.t = "exec" /\ ~it.tgt /\ ~it.cmted /\ PermInfo(it.perm).acc = "r" /\ PermInfo(it.perm).mode \in {"PUx", "Ux"}
C17On(c, s, o) == c.full => \A i \in DOMAIN s : IsFspSource(s[i]) =>
                      /\ o[i].t = "exec"
                      /\ ~Unconf(PermInfo(o[i].perm).mode)
                      /\ PermInfo(o[i].perm).mode \in {"px", "Px"}
C17 == Done => C17On(cfg, src, file)

\* C05: per block, complain build = none build + complain; enforce build = none
\* build - complain; rest of the header (here: shape, position, kind) untouched.
RefMode(it, mode) == CASE mode = "complain" -> [it EXCEPT !.flags = @ \cup {"complain"}, !.nfl = 1]
                       [] mode = "enforce"  -> [it EXCEPT !.flags = @ \ {"complain"},
                                                          !.nfl = IF it.flags \ {"complain"} = {} THEN 0 ELSE it.nfl]
                       [] OTHER -> it
C05On(c, s) == LET none == Run([c EXCEPT !.mode = "none"], s)
                   out  == Run(c, s)
               IN  /\ Len(out) = Len(none)
                   /\ \A i \in DOMAIN none :
                        IF none[i].t = "hdr"
                        THEN out[i].t = "hdr" /\ out[i].flags = RefMode(none[i], c.mode).flags
                             /\ (out[i].shape = "ok" \/ out[i].nfl = 1) /\ out[i].sub = none[i].sub /\ out[i].rest = none[i].rest
                        ELSE out[i] = none[i]
C05 == Done => C05On(cfg, src)

\* C01 (syntactic part the builders can break): header shape, one flags clause,
\* valid permission tokens, no live AppArmor-4-only rule under ABI 3, abi line = target.
Loadable(c, o) == \A i \in DOMAIN o :
                     \* the brace may follow ")" of a flags clause directly, but not a name or an attachment
                     /\ (o[i].t = "hdr" => (o[i].shape = "ok" \/ o[i].nfl = 1) /\ o[i].nfl <= 1)
                     /\ (o[i].t = "exec" /\ ~o[i].cmted => PermInfo(o[i].perm).valid)
                     /\ (o[i].t = "a4" /\ c.abi = 3 /\ o[i].k \in {"userns", "mqueue"} => o[i].cmted)
                     /\ (o[i].t = "abi" => o[i].v = c.abi)
C01syn == Done => Loadable(cfg, file)

\* C18 (build stage): two configurations that differ in one option give files
\* that differ only in the items that option governs.
Governed(opt, a, b) == CASE opt = "mode" -> a.t = "hdr" /\ b.t = "hdr" /\ a.sub = b.sub /\ a.shape = b.shape
                         [] opt = "abi"  -> \/ (a.t = "abi" /\ b.t = "abi")
                                            \/ (a.t = "a4" /\ b.t = "a4" /\ a.k = b.k /\ a.bare = b.bare)
                         [] opt = "full" -> a.t = "exec" /\ b.t = "exec" /\ a.tgt = b.tgt
                         [] OTHER -> FALSE
DiffOK(opt, oa, ob) == Len(oa) = Len(ob) /\ \A i \in DOMAIN oa : oa[i] = ob[i] \/ Governed(opt, oa[i], ob[i])
Neighbours(c) == {<<"mode", [c EXCEPT !.mode = m]>> : m \in BModes \ {c.mode}}
            \cup {<<"abi", [c EXCEPT !.abi = 7 - c.abi]>>}
            \cup {<<"full", [c EXCEPT !.full = ~c.full]>>}
C18 == Done => \A n \in Neighbours(cfg) : DiffOK(n[1], file, Run(n[2], src))

\* The chain itself: fsp (when present) must see the modes it is written for, whatever
\* precedes it - stated as: no registered order may leave an fsp-source rule unconfined.
=============================================================================
