------------------------------ MODULE LogLine ------------------------------
(* C15 (and the "does not crash on malformed lines" part of C14): one log line, *)
(* character by character.                                                      *)
(*                                                                              *)
(* A line is a sequence of abstract characters.  Each stands for a class of     *)
(* bytes that the scanners of pkg/logs and pkg/util treat alike:                 *)
(*   a  ordinary letter        s  blank           q  double quote               *)
(*   e  '='                    b  backslash       x  '#'                        *)
(*   u  a UTF-8 multibyte      t  tab (a control character)   l  line feed      *)
(*   G  a lone byte >= 0x80 (not valid UTF-8)                                   *)
(*   p  any other printable ASCII punctuation (' % : , ( ) [ ] { } + - . * ? @   *)
(*      ~ & ; < > | $ ! ^ ` /): the scanners give none of them a meaning; the    *)
(*      harness writes a different one on every line                             *)
(*   D  two upper-case hex digits that are not decimal ("DE")                   *)
(*   N  two decimal digits ("12")                                                *)
(*   name / comm / profile / info / pid / ...  the key word spelled out         *)
(*   %c the two (or more) hex digits that encode character c; the encoding of   *)
(*      G is D itself                                                            *)
(*                                                                              *)
(* Encode is the kernel's side of the contract (audit_log_untrustedstring: a    *)
(* value holding a quote, a byte < 0x21 or > 0x7e is written in hex, any other  *)
(* value between quotes; only name, comm and profile matter to C15).            *)
(* DecodeLine is the implementation, stage by stage, in the order of            *)
(* logs.GetApparmorLogs and logs.New:                                           *)
(*   CleanPid   regCleanLogs `(peer_|)pid=[0-9]*\s`  (before hex decoding)      *)
(*   HexInLine  util.DecodeHexInString               (quote-aware, whole field) *)
(*   Split " "  strings.FieldsFunc(log, splitQuoted)                            *)
(*   Split "="  strings.FieldsFunc(item, ...)        (quoted reset per field)   *)
(*   HexField   util.DecodeHexField for values that could not be decoded in     *)
(*              the line because they hold a quote                              *)
(*   Unquote    one pair of quotes of a quoted value                            *)
(* A journald carrier (MESSAGE as a JSON string, or as an array of bytes when  *)
(* the line is not printable UTF-8) hands the same bytes to these stages: the   *)
(* harness sends every third line through each carrier.                          *)
(* The design-level theorem is  DecodeLine(EncRec(r)) = Expected(r)  for every  *)
(* record r of the contract; TLC checks it for every value up to the bound and  *)
(* hands each (record, line) to the harness, which concretises the line, runs   *)
(* the REAL logs.New on it and has LogLineTrace compare the three.              *)
EXTENDS Naturals, Sequences, FiniteSets, TLC

Chars   == {"a", "s", "q", "e", "b", "x", "u", "t", "l", "G", "D", "N", "p", "name", "pid"}
HexKeys == {"name", "comm", "profile"}
Ctl     == {"s", "q", "u", "t", "l", "G"}                       \* what makes the kernel write hex
Hx(c)   == IF c = "G" THEN "D" ELSE "%" \o c
HxChars == {Hx(c) : c \in Chars \ {"G"}}
Hexish(c) == c \in HxChars \/ c \in {"D", "N"}
UnHx(h) == IF h = "D" THEN "G" ELSE IF h = "N" THEN "t2" ELSE CHOOSE c \in Chars : Hx(c) = h
Range(s) == {s[i] : i \in DOMAIN s}

\* ---------------------------------------------------------------- kernel side
\* a field: [k key, v value (sequence of Chars), bare (TRUE: written as is, e.g. pid=12 fsuid=12)]
NeedsHex(v) == \E i \in DOMAIN v : v[i] \in Ctl
EncField(f) == IF f.bare THEN <<f.k, "e">> \o f.v
               ELSE IF f.k \in HexKeys /\ NeedsHex(f.v) THEN <<f.k, "e">> \o [i \in DOMAIN f.v |-> Hx(f.v[i])]
               ELSE <<f.k, "e", "q">> \o f.v \o <<"q">>
RECURSIVE EncRec(_)
EncRec(fs) == IF fs = <<>> THEN <<>>
              ELSE IF Len(fs) = 1 THEN EncField(fs[1])
              ELSE EncField(fs[1]) \o <<"s">> \o EncRec(Tail(fs))
\* what the event must hold: every field but the pid, which aa-log strips on purpose
Expected(fs) == {<<fs[i].k, fs[i].v>> : i \in {j \in DOMAIN fs : fs[j].k # "pid"}}

\* ---------------------------------------------------------------- implementation side
RECURSIVE RunHex(_, _)
RunHex(s, i) == IF i <= Len(s) /\ Hexish(s[i]) THEN 1 + RunHex(s, i + 1) ELSE 0
RECURSIVE RunDig(_, _)
RunDig(s, i) == IF i <= Len(s) /\ s[i] = "N" THEN 1 + RunDig(s, i + 1) ELSE 0

\* regCleanLogs: (peer_|)pid=[0-9]*\s  ->  " "     (leftmost, non-overlapping)
RECURSIVE CleanPid(_, _)
CleanPid(s, i) ==
    IF i > Len(s) THEN <<>>
    ELSE IF s[i] = "pid" /\ i + 1 <= Len(s) /\ s[i + 1] = "e"
         THEN LET n == RunDig(s, i + 2) IN
              IF i + 2 + n <= Len(s) /\ s[i + 2 + n] \in {"s", "t"}
              THEN <<"s">> \o CleanPid(s, i + 3 + n)
              ELSE <<s[i]>> \o CleanPid(s, i + 1)
         ELSE <<s[i]>> \o CleanPid(s, i + 1)

\* util.DecodeHexInString: at a field start outside quotes, (name|comm|profile)=HEX followed by a
\* blank or the end is replaced by key="decoded" unless the decoded bytes hold a quote
HexMatch(s, i) == IF i + 1 <= Len(s) /\ s[i] \in HexKeys /\ s[i + 1] = "e"
                  THEN LET n == RunHex(s, i + 2) IN
                       IF n > 0 /\ (i + 2 + n > Len(s) \/ s[i + 2 + n] = "s") THEN n ELSE 0
                  ELSE 0
RECURSIVE HexInLine(_, _, _)
HexInLine(s, i, quoted) ==
    IF i > Len(s) THEN <<>>
    ELSE LET q2  == IF s[i] = "q" THEN ~quoted ELSE quoted
             n   == IF ~q2 /\ (i = 1 \/ s[i - 1] = "s") THEN HexMatch(s, i) ELSE 0
             dec == [j \in 1..n |-> UnHx(s[i + 1 + j])]
         IN IF n > 0 /\ "q" \notin Range(dec)
            THEN <<s[i], "e", "q">> \o dec \o <<"q">> \o HexInLine(s, i + 2 + n, q2)
            ELSE <<s[i]>> \o HexInLine(s, i + 1, q2)

\* strings.FieldsFunc with the quote toggle: the toggle is evaluated before the separator test,
\* the quote itself stays in the piece, empty pieces are dropped
RECURSIVE SplitQ(_, _, _, _, _)
SplitQ(s, i, sep, quoted, cur) ==
    IF i > Len(s) THEN (IF cur = <<>> THEN <<>> ELSE <<cur>>)
    ELSE LET q2 == IF s[i] = "q" THEN ~quoted ELSE quoted IN
         IF ~q2 /\ s[i] = sep THEN (IF cur = <<>> THEN <<>> ELSE <<cur>>) \o SplitQ(s, i + 1, sep, q2, <<>>)
         ELSE SplitQ(s, i + 1, sep, q2, Append(cur, s[i]))

\* util.DecodeHexField: a still encoded value of a hex key
HexField(key, v) == IF key \in {<<k>> : k \in HexKeys} /\ v # <<>> /\ \A i \in DOMAIN v : Hexish(v[i])
                    THEN [i \in DOMAIN v |-> UnHx(v[i])] ELSE v
Unquote(v) == LET w == Tail(v) IN IF w # <<>> /\ w[Len(w)] = "q" THEN SubSeq(w, 1, Len(w) - 1) ELSE w
FieldKV(item) == LET kv == SplitQ(item, 1, "e", FALSE, <<>>) IN
                 IF Len(kv) < 2 THEN <<>>
                 ELSE <<<<kv[1], IF kv[2][1] = "q" THEN Unquote(kv[2]) ELSE HexField(kv[1], kv[2])>>>>
RECURSIVE Pairs(_)
Pairs(items) == IF items = <<>> THEN <<>> ELSE FieldKV(items[1]) \o Pairs(Tail(items))
\* a Go map: the last value of a key wins
AsMap(ps) == {ps[i] : i \in {j \in DOMAIN ps : \A m \in DOMAIN ps : m > j => ps[m][1] # ps[j][1]}}
DecodeLine(line) == AsMap(Pairs(SplitQ(HexInLine(CleanPid(line, 1), 1, FALSE), 1, "s", FALSE, <<>>)))
\* keys of the expectation are single key words; the implementation's are character sequences
Lift(exp) == {<<<<p[1]>>, p[2]>> : p \in exp}
C15Design(fs) == DecodeLine(EncRec(fs)) = Lift(Expected(fs))
=============================================================================
