SPECIFICATION Spec
CONSTANTS
  Prepares <- MCPrepares
  Builders <- MCBuilders
  Order <- MCOrder
  Reads <- MCReads
  TwoPass = FALSE
INVARIANTS ReadsBuilt WriteAfterBuild Complete
CHECK_DEADLOCK FALSE
