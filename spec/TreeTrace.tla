------------------------------ MODULE TreeTrace ------------------------------
(* Replays projections of the real source tree and of real builds against     *)
(* the predicates of Tree.tla.  Events:                                       *)
(*   profile / abstraction / names            (C19, source tree)              *)
(*   build (defines, upstream) ; ref ; named  (C08, one build per episode)    *)
EXTENDS Tree, Json, IOUtils

Trace == ndJsonDeserialize(IOEnv.VERIF_TRACE)
VARIABLES l, ev, defines, upstream, sources, cfgkey
tvars == <<l, ev, defines, upstream, sources, cfgkey>>

TInit == l = 1 /\ ev = [ev |-> "init"] /\ defines = {} /\ upstream = {} /\ sources = {} /\ cfgkey = ""
Consume(kinds) == l <= Len(Trace) /\ Trace[l].ev \in kinds /\ l' = l + 1 /\ ev' = Trace[l]

TSrc    == Consume({"profile", "abstraction", "names", "flat", "ref", "named", "parse"}) /\ UNCHANGED <<defines, upstream, sources, cfgkey>>
TBuild  == /\ Consume({"build"})
           /\ defines' = SeqToSet(Trace[l].defines) /\ upstream' = SeqToSet(Trace[l].upstream)
           /\ cfgkey' = Trace[l].cfgkey /\ UNCHANGED sources
TSource == Consume({"sources"}) /\ sources' = SeqToSet(Trace[l].names) /\ UNCHANGED <<defines, upstream, cfgkey>>
TNext == TSrc \/ TBuild \/ TSource
TSpec == TInit /\ [][TNext]_tvars

Rep(p, key, what, d) == PrintT("VIOL " \o ToJson([p |-> p, key |-> key, what |-> what, d |-> d]))
Must(p, key, what, ok, d) == ok \/ Rep(p, key, what, d)

C19Profile == ev.ev = "profile" =>
    /\ Must("C19", ev.file \o "|abi", "profile file does not declare abi <abi/4.0>,", AbiOK(ev), ev.abi)
    /\ Must("C19", ev.file \o "|name", "no top-level profile named after the file", NamedOK(ev), ev.base)
    /\ Must("C19", ev.file \o "|attachment", "attachment of the profile is neither absent nor the @{exec_path} variable defined in its preamble", AttachOK(ev), ev.tops)
    /\ Must("C19", ev.file \o "|local", "a block lacks its include if exists <local/...> line", LocalsOK(ev), BadLocals(ev))
C19Abstraction == ev.ev = "abstraction" =>
    Must("C19", ev.file \o "|dotd", "abstraction does not include its own .d directory", AbstractionOK(ev), ev.incs)
\* the flat output directory of a real build holds every source profile the ignore lists of that distribution do
\* not name (as NAME or NAME.apparmor.d)
C19Flat == ev.ev = "flat" =>
    Must("C19", "flat|" \o ev.cfgkey, "source profiles are missing from the flat output directory of a build", ev.lost = <<>>, ev.lost)
C19Names == ev.ev = "names" =>
    Must("C19", "basenames", "two source profiles share a base name: the flat output directory loses one", Dups(ev.names) = {}, Dups(ev.names))

C08Ref == ev.ev = "ref" =>
    Must("C08", ev.key, "reference to a profile that is not defined in this build (nor upstream)", RefOK(ev, defines, upstream), [cfg |-> cfgkey, target |-> ev.target])
C08Named == ev.ev = "named" =>
    Must("C08", ev.key, "a manifest / directive names a profile that does not exist in the source tree", ev.name \in sources, ev.name)

\* C01: verdict of the reference parser on one written file of one configuration
C01Parse == ev.ev = "parse" =>
    Must("C01", ev.key, "the reference parser rejects a file of the build output", ev.ok, [cfg |-> ev.cfgkey, file |-> ev.file, diag |-> ev.diag])

Accepted == TLCGet("stats").diameter = Len(Trace) + 1
==============================================================================
