---------------------------- MODULE MC_LogFields ----------------------------
(* Enumeration for C15 / C16: which fields a record carries and of which value  *)
(* class (C15), and which record class / mask / ownership / name class a record *)
(* has (C16).  The harness concretises every tuple into real kernel log lines.  *)
EXTENDS Naturals, Sequences, FiniteSets, TLC, Json, IOUtils, TLCExt

VARIABLES rec, mode
MaxF == IF "VERIF_FIELDS_LEN" \in DOMAIN IOEnv THEN atoi(IOEnv.VERIF_FIELDS_LEN) ELSE 2
Keys == {"name", "comm", "target", "info", "peer", "profile", "srcname"}
\* genpath: a value the path generalisation would rewrite (home, run/user/<uid>, hex and number runs): it may only
\* be rewritten in the fields the generalisation is documented for
Classes == {"plain", "space", "eq", "hash", "comma", "utf8", "hexlike", "kvinside", "hexenc", "oddq", "genpath"}
OKField(k, c) == c \in {"hexenc", "oddq"} => k \in {"name", "comm", "profile"}     \* what the kernel hex-encodes
Fields == {f \in [k : Keys, c : Classes] : OKField(f.k, f.c)}

\* C16 tuples
RClass == {"file:open", "file:exec", "file:link", "file:mknod", "file:chmod", "file:unlink", "file:rename_src", "file:truncate", "file:file_inherit", "file:file_mmap",
           "cap", "net:inet", "net:unix", "signal", "ptrace", "dbus", "mount", "umount", "remount", "pivotroot", "mqueue", "io_uring", "userns", "rlimits", "change_onexec"}
Masks == {"r", "w", "rw", "a", "c", "d", "wc", "x", "m", "rm", "k", "l", "wr", "ac"}
Verdicts == {"ALLOWED", "DENIED", "AUDIT"}

\* histories (C16): several records of ONE profile on two paths, by the owner or by someone else, with
\* masks whose letters collapse (wc, ac, wd -> w)
MaxH == IF "VERIF_HIST_LEN" \in DOMAIN IOEnv THEN atoi(IOEnv.VERIF_HIST_LEN) ELSE 3
HMasks == {"r", "w", "wc", "ac", "wd", "wrc", "k"}
ExtendH == /\ mode = "hist" /\ Len(rec) < MaxH
           /\ \E p \in 1..2, m \in HMasks, o \in BOOLEAN : rec' = Append(rec, [p |-> p, mask |-> m, own |-> o])
           /\ UNCHANGED mode

\* signal histories: records of one profile to one peer; Signal.Merge has two alternative criteria (same
\* access or same set), so what three records merge into depends on the chain they form
ExtendS == /\ mode = "sighist" /\ Len(rec) < MaxH
           /\ \E a \in {"send", "receive"}, sg \in {"hup", "term", "int"} : rec' = Append(rec, [acc |-> a, sig |-> sg])
           /\ UNCHANGED mode

\* access histories of the other kinds: records of one profile on one object that differ in what was asked for;
\* every access asked for must come out, whatever the earlier records merged into
AccKinds == {"unix", "ptrace", "mqueue", "io_uring", "dbus"}
ExtendA == /\ mode = "acchist" /\ Len(rec) < MaxH
           /\ \E k \in AccKinds, a \in 1..3 : (IF rec = <<>> THEN TRUE ELSE rec[1].kind = k) /\ rec' = Append(rec, [kind |-> k, a |-> a])
           /\ UNCHANGED mode

Init == rec = <<>> /\ mode \in {"fields", "rules", "hist", "sighist", "acchist"}
ExtendF == /\ mode = "fields" /\ Len(rec) < MaxF
           /\ \E f \in Fields : (\A i \in DOMAIN rec : rec[i].k # f.k) /\ rec' = Append(rec, f)
           /\ UNCHANGED mode
PickR == /\ mode = "rules" /\ rec = <<>>
         /\ \E c \in RClass, m \in Masks, v \in Verdicts, own \in BOOLEAN, n \in 1..28 :
               rec' = <<[cls |-> c, mask |-> m, verdict |-> v, own |-> own, nameclass |-> n]>>
         /\ mode' = "ruledone"
Spec == Init /\ [][ExtendF \/ PickR \/ ExtendH \/ ExtendS \/ ExtendA]_<<rec, mode>>
Emit == /\ (mode = "fields" /\ rec # <<>> => PrintT("BEHF " \o ToJson(rec)))
        /\ (mode = "ruledone" => PrintT("BEHR " \o ToJson(rec[1])))
        /\ (mode = "hist" /\ Len(rec) >= 2 => PrintT("BEHH " \o ToJson(rec)))
        /\ (mode = "sighist" /\ Len(rec) >= 2 => PrintT("BEHS " \o ToJson(rec)))
        /\ (mode = "acchist" /\ Len(rec) >= 2 => PrintT("BEHA " \o ToJson(rec)))
=============================================================================
