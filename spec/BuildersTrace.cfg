SPECIFICATION TSpec
CONSTANTS
  Ext <- TExt
  HdrPerLine <- THdrPerLine
  CfgUniverse = {}
  FileUniverse = {}
INVARIANTS Conf ConfDone StepOK C17Real C17Final C01Real C05Real C05Anchor C18Real
POSTCONDITION Accepted
CHECK_DEADLOCK FALSE
