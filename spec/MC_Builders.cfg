SPECIFICATION Spec
CONSTANTS
  Ext <- MCExt
  HdrPerLine <- MCHdrPerLine
  CfgUniverse <- MCCfgs
  FileUniverse <- MCFiles
INVARIANTS Leads Emit
CHECK_DEADLOCK FALSE
