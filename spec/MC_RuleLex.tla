----------------------------- MODULE MC_RuleLex -----------------------------
(* Bounded universe for RuleLex.  Paths are "/" followed by up to MaxLen       *)
(* elements, each a short character sequence chosen to exercise one lexical     *)
(* feature (comma glued / followed by a blank, alternations - empty, nested,    *)
(* with a blank -, '=', parentheses, a class, '#', a variable, multibyte, '*'). *)
(*   path  every path, bare and after a qualifier                               *)
(*   mix   short paths x qualifiers x owner x targets x comments                *)
(*   pair  two rules in one paragraph (state carried from one rule to the next) *)
(*   varpath  paths that start with a variable                                   *)
EXTENDS RuleLex, Json, IOUtils, TLCExt

MaxLen == IF "VERIF_PATH_LEN" \in DOMAIN IOEnv THEN atoi(IOEnv.VERIF_PATH_LEN) ELSE 2
Elem == [k |-> <<"a">>, sp |-> <<"s">>, cs |-> <<"c", "s">>, cm |-> <<"c", "a">>,
         alt |-> <<"o{", "a", "c", "a", "c}">>, alte |-> <<"o{", "c", "a", "c}">>,
         alts |-> <<"o{", "a", "c", "s", "a", "c}">>, nest |-> <<"o{", "a", "c", "o{", "a", "c", "a", "c}", "c}">>,
         eq |-> <<"e">>, par |-> <<"o(", "a", "c)">>, cls |-> <<"o[", "a", "c]">>, hash |-> <<"h">>,
         var |-> <<"at", "o{", "a", "c}">>, esc |-> <<"bs", "o{">>, escc |-> <<"bs", "c}">>, escq |-> <<"bs", "q">>, escs |-> <<"bs", "s">>, bsbs |-> <<"bs", "bs">>, dol |-> <<"dl", "a">>, pct |-> <<"pc", "a">>, u |-> <<"u">>, st |-> <<"st">>, sl |-> <<"sl">>]
E == DOMAIN Elem
PathOf(es) == <<"sl">> \o Flat([i \in DOMAIN es |-> Elem[es[i]]])
ElemSeqs(n) == UNION {[1..m -> E] : m \in 0..n}
Quals == {<<>>, <<"audit">>, <<"deny">>, <<"audit", "deny">>}
Targets == {<<>>, <<"tgt">>, <<"sl", "a", "s", "a">>, <<"sl", "a", "e", "o(", "a", "c)">>}
Comments == {<<>>, <<"s", "a">>, <<"s", "a", "c", "s", "a">>, <<"s", "q", "a">>, <<"s", "o{", "a">>, <<"s", "h", "a">>, <<"a">>}
Rule(q, o, p, t, c) == [qual |-> q, owner |-> o, path |-> p, target |-> t, comment |-> c]

\* a path that starts with a variable (the tokenizer has a variable-definition mode keyed on a leading "@{")
VarPathOf(es) == Elem["var"] \o <<"sl">> \o Flat([i \in DOMAIN es |-> Elem[es[i]]])

VARIABLES mode, rs
Init == \/ /\ mode = "varpath"
           /\ \E es \in ElemSeqs(IF MaxLen > 2 THEN 2 ELSE MaxLen), q \in {<<>>, <<"audit">>} : rs = <<Rule(q, FALSE, VarPathOf(es), <<>>, <<>>)>>
        \/ /\ mode = "path"
           /\ \E es \in ElemSeqs(MaxLen), q \in {<<>>, <<"audit">>} : rs = <<Rule(q, FALSE, PathOf(es), <<>>, <<>>)>>
        \/ /\ mode = "mix"
           /\ \E es \in ElemSeqs(1), q \in Quals, o \in BOOLEAN, t \in Targets, c \in Comments : rs = <<Rule(q, o, PathOf(es), t, c)>>
        \/ /\ mode = "pair"
           /\ \E e1 \in ElemSeqs(1), c1 \in Comments, e2 \in ElemSeqs(1), c2 \in {<<>>, <<"s", "a">>} :
                 rs = <<Rule(<<>>, FALSE, PathOf(e1), <<>>, c1), Rule(<<>>, FALSE, PathOf(e2), <<>>, c2)>>
Next == UNCHANGED <<mode, rs>>
Spec == Init /\ [][Next]_<<mode, rs>>

Emit == /\ PrintT("BEHX " \o ToJson([mode |-> mode, rules |-> rs, text |-> PrintBlock(rs)]))
        /\ (C09Design(rs) \/ PrintT("LEADX " \o ToJson([rules |-> rs, parsed |-> ParseText(PrintBlock(rs))])))
C09 == C09Design(rs)
=============================================================================
