SPECIFICATION Spec
INVARIANTS Emit RawTotal
CHECK_DEADLOCK FALSE
