---------------------------- MODULE BuildersTrace ----------------------------
(* Trace validation for the build stage.  The ndjson trace is recorded from   *)
(* the REAL prebuild binary (hook events "builder": text before/after every   *)
(* registered builder, for every file), projected to abstract items by the    *)
(* independent scanner, de-duplicated by abstract shape, and replayed here.   *)
(*                                                                             *)
(*   file     starts an episode: configuration, registered chain, items of    *)
(*            the text entering the build stage, items of the same file in    *)
(*            the mode=none build (C05 baseline), pristine source items and   *)
(*            the manifest entry (C05 anchor)                                  *)
(*   builder  one registered builder ran: items after it                       *)
(*   done     end of the chain for this file                                   *)
(*   pair     final items of one file under two configurations at Hamming      *)
(*            distance one (C18)                                               *)
(*                                                                             *)
(* PropTrace: the state simply adopts what was logged; the properties are      *)
(* evaluated on it (collecting: a failure prints VIOL and TLC goes on).        *)
(* ConfTrace: the algorithm model must explain every step: Apply(b, prev) =    *)
(* logged items, b = the model's chain at that position (DRIFT otherwise).     *)
EXTENDS Builders, Json, IOUtils, ExtData

TExt        == ExtTables
THdrPerLine == IOEnv.VERIF_HDR_PER_LINE = "1"
Trace       == ndJsonDeserialize(IOEnv.VERIF_TRACE)

VARIABLES l, prev, none, orig, meta, phase, fin
tvars == <<cfg, src, file, pc, hist, l, prev, none, orig, meta, phase, fin>>

J2I(it)   == [it EXCEPT !.flags = SeqToSet(it.flags)]
Items(js) == [i \in DOMAIN js |-> J2I(js[i])]
Ev        == Trace[l]
IsEvent(e) == l <= Len(Trace) /\ Trace[l].ev = e /\ l' = l + 1

TInit == /\ l = 1 /\ cfg = [dist |-> "arch", abi |-> 4, ver |-> "4.1", mode |-> "none", full |-> FALSE]
         /\ src = <<>> /\ file = <<>> /\ pc = 1 /\ hist = <<>> /\ prev = <<>> /\ none = <<>> /\ orig = <<>>
         /\ meta = [id |-> "", chain |-> <<>>, manifest |-> "-", mflags |-> {}, hasnone |-> FALSE, hasorig |-> FALSE, opt |-> ""]
         /\ phase = "idle" /\ fin = [items |-> <<>>, fsp |-> {}]

TFile == /\ IsEvent("file")
         /\ cfg' = Ev.cfg /\ src' = Items(Ev.src) /\ file' = Items(Ev.src) /\ prev' = Items(Ev.src)
         /\ none' = Items(Ev.none) /\ orig' = Items(Ev.orig)
         /\ pc' = 1 /\ hist' = <<>>
         /\ meta' = [id |-> Ev.id, chain |-> Ev.chain, manifest |-> Ev.manifest, mflags |-> SeqToSet(Ev.mflags),
                     hasnone |-> Ev.hasnone, hasorig |-> Ev.hasorig, opt |-> ""]
         /\ phase' = "file" /\ UNCHANGED fin

\* a step that left the text byte-identical is logged as same=TRUE without the items
TBuilder == /\ IsEvent("builder")
            /\ prev' = file /\ file' = IF Ev.same THEN file ELSE Items(Ev.after)
            /\ hist' = Append(hist, Ev.name) /\ pc' = pc + 1
            /\ phase' = "step"
            /\ UNCHANGED <<cfg, src, none, orig, meta, fin>>

TDone == /\ IsEvent("done") /\ phase' = "done"
         /\ UNCHANGED <<cfg, src, file, pc, hist, prev, none, orig, meta, fin>>

TPair == /\ IsEvent("pair")
         /\ cfg' = Ev.cfg /\ src' = <<>> /\ file' = Items(Ev.a) /\ prev' = Items(Ev.b)
         /\ none' = <<>> /\ orig' = <<>> /\ pc' = 1 /\ hist' = <<>>
         /\ meta' = [id |-> Ev.id, chain |-> <<>>, manifest |-> "-", mflags |-> {}, hasnone |-> FALSE, hasorig |-> FALSE, opt |-> Ev.opt]
         /\ phase' = "pair" /\ UNCHANGED fin

\* the file as finally written (after the directives, which may paste in the text of OTHER
\* files as they are at that moment): exec rules of the output, and the paths of the rules
\* the sources of this file and of the profiles it stacks write as r+{PUx,Ux} without target
TFinal == /\ IsEvent("final")
          /\ cfg' = Ev.cfg /\ fin' = [items |-> Ev.items, fsp |-> SeqToSet(Ev.fsp)]
          /\ meta' = [meta EXCEPT !.id = Ev.id]
          /\ phase' = "final"
          /\ UNCHANGED <<src, file, pc, hist, prev, none, orig>>

TNext == TFile \/ TBuilder \/ TDone \/ TPair \/ TFinal
TSpec == TInit /\ [][TNext]_tvars

\* ---------------------------------------------------------------- reporting
Rep(tag, p, what, d) == PrintT(tag \o " " \o ToJson([p |-> p, id |-> meta.id, what |-> what, l |-> l - 1, d |-> d]))
Must(tag, p, what, ok) == ok \/ Rep(tag, p, what, "")
MustD(tag, p, what, ok, d) == ok \/ Rep(tag, p, what, d)
\* positions at which two item sequences differ (detail for violation keys)
DiffIdx(a, b) == IF Len(a) # Len(b) THEN {0} ELSE {i \in DOMAIN a : a[i] # b[i]}

\* ---------------------------------------------------------------- ConfTrace
MaskSeg(f)  == [i \in DOMAIN f |-> [f[i] EXCEPT !.rest = ""]]    \* hotfix: also prose in trailing comments
MaskRest(f) == [i \in DOMAIN f |-> IF f[i].t = "hdr" THEN [f[i] EXCEPT !.rest = ""] ELSE f[i]]
LastName == hist[Len(hist)]
Conf == phase = "step" =>
          /\ Must("DRIFT", "chain", "builder " \o LastName \o " ran at a position where the model's chain has another",
                  Len(hist) <= Len(Chain(cfg)) /\ Chain(cfg)[Len(hist)] = LastName)
          /\ MustD("DRIFT", "step", "model of builder " \o LastName \o " does not explain the logged result",
                  IF LastName = "userspace"          \* the attachment rewrite is modelled in Resolve.tla, not here
                  THEN MaskRest(Apply(LastName, prev)) = MaskRest(file)
                  ELSE IF LastName = "hotfix"        \* its patterns also hit prose in comments ("Px ->"): not modelled
                  THEN MaskSeg(Apply(LastName, prev)) = MaskSeg(file)
                  ELSE Apply(LastName, prev) = file,
                  LET m == Apply(LastName, prev) IN
                  IF Len(m) # Len(file) THEN <<"len">> ELSE [i \in DiffIdx(m, file) |-> [model |-> m[i], real |-> file[i], before |-> prev[i]]])
ConfDone == phase = "done" =>
          Must("DRIFT", "chain", "the chain ended after fewer or more builders than the model registers", Len(hist) = Len(Chain(cfg)))

\* ---------------------------------------------------------------- PropTrace
SameShape(a, b) == Len(a) = Len(b) /\ \A i \in DOMAIN a : a[i].t = b[i].t \/ {a[i].t, b[i].t} = {"a4"}

\* what each builder may touch (per-step orthogonality, part of C18)
StepGov(b, x, y) == CASE b = "userspace" -> x.t = "hdr" /\ y = [x EXCEPT !.rest = y.rest]
                      [] b \in {"hotfix", "fsp"} -> x.t = "exec" /\ y = [x EXCEPT !.perm = y.perm]
                      [] b \in {"complain", "enforce"} -> x.t = "hdr" /\ y = [x EXCEPT !.flags = y.flags, !.nfl = y.nfl]
                      [] b = "abi3" -> \/ (x.t = "abi" /\ y = [x EXCEPT !.v = y.v])
                                       \/ (x.t = "a4" /\ y = [x EXCEPT !.cmted = y.cmted])
                      [] OTHER -> FALSE
\* Only builders switched on by an option are judged (C18 compares builds that differ in
\* one option); userspace and hotfix run in every build, a stray edit there is reported as drift.
StepOK == phase = "step" =>
          MustD(IF LastName \in {"fsp", "complain", "enforce", "abi3"} THEN "VIOL" ELSE "DRIFT", "C18", "builder " \o LastName \o " changed an item it does not govern",
               Len(prev) = Len(file) /\ \A i \in DOMAIN prev : prev[i] = file[i] \/ StepGov(LastName, prev[i], file[i]),
               [b |-> LastName, kinds |-> IF Len(prev) # Len(file) THEN {"len"} ELSE {prev[i].t : i \in {j \in DOMAIN prev : prev[j] # file[j] /\ ~StepGov(LastName, prev[j], file[j])}}])

C17Real == phase = "done" =>
          MustD("VIOL", "C17", "a source r+{PUx,Ux} rule without target still allows the unconfined fallback after the chain",
               SameShape(src, file) /\ C17On(cfg, src, file),
               IF ~SameShape(src, file) THEN {"shape"} ELSE {file[i].perm : i \in {j \in DOMAIN src : IsFspSource(src[j]) /\ (file[j].t # "exec" \/ PermInfo(file[j].perm).mode \notin {"px", "Px"})}})

C17Final == phase = "final" /\ cfg.full =>
          MustD("VIOL", "C17", "the written file still has an unconfined fallback on a rule its source (or a stacked profile's source) writes as r+{PUx,Ux}",
               \A i \in DOMAIN fin.items : LET it == fin.items[i] IN
                   (it.path \in fin.fsp /\ ~it.tgt /\ it.acc = "r") => ~Unconf(it.mode),
               {<<fin.items[i].path, fin.items[i].perm>> : i \in {j \in DOMAIN fin.items :
                   fin.items[j].path \in fin.fsp /\ ~fin.items[j].tgt /\ fin.items[j].acc = "r" /\ Unconf(fin.items[j].mode)}})

C01Real == phase = "done" =>
          MustD("VIOL", "C01", "build stage left a header / permission token / AppArmor-4 rule / abi line the parser cannot load for this target",
               Loadable(cfg, file),
               {<<file[i].t, file[i].shape, file[i].nfl, file[i].perm, file[i].k>> : i \in {j \in DOMAIN file : ~Loadable(cfg, <<file[j]>>)}})

\* C05 on real output: this build against the mode=none build of the same file
C05Pair(c, n, o) == /\ Len(n) = Len(o)
                    /\ \A i \in DOMAIN n :
                         IF n[i].t = "hdr"
                         THEN /\ o[i].t = "hdr" /\ o[i].flags = RefMode(n[i], c.mode).flags
                              /\ o[i].sub = n[i].sub /\ o[i].rest = n[i].rest     \* name, attachment, xattrs untouched
                              /\ o[i].nfl <= 1 /\ (o[i].shape = "ok" \/ o[i].nfl = 1)
                         ELSE o[i] = n[i]
C05Real == phase = "done" /\ meta.hasnone =>
          MustD("VIOL", "C05", "header flags of the " \o cfg.mode \o " build are not the none-build flags with complain added/removed",
               C05Pair(cfg, none, file),
               IF Len(none) # Len(file) THEN <<"len">> ELSE
               [i \in {j \in DOMAIN none : none[j].t = "hdr" /\ (file[j].t # "hdr" \/ file[j].flags # RefMode(none[j], cfg.mode).flags \/ (file[j].shape # "ok" /\ file[j].nfl = 0) \/ file[j].rest # none[j].rest \/ file[j].nfl > 1)}
                  |-> [got |-> file[i].flags, none |-> none[i].flags, shape |-> file[i].shape]])
\* anchor: the none build itself carries the source flags, overridden only by the manifests
HdrIdx(f) == {i \in DOMAIN f : f[i].t = "hdr"}
C05Anchor == phase = "done" /\ meta.hasorig /\ cfg.mode = "none" =>
          Must("VIOL", "C05", "none-build flags differ from the source flags as overridden by the manifests",
               /\ SameShape(orig, file)
               /\ IF meta.manifest = "flags"
                  THEN HdrIdx(file) # {} /\ file[MinOf(HdrIdx(file))].flags = meta.mflags
                  ELSE \A i \in HdrIdx(orig) : file[i].flags = orig[i].flags)

C18Real == phase = "pair" =>
          Must("VIOL", "C18", "two builds differing only in " \o meta.opt \o " differ in an item that option does not govern",
               DiffOK(meta.opt, file, prev))

Accepted == TLCGet("stats").diameter = Len(Trace) + 1
==============================================================================
