SPECIFICATION TSpec
INVARIANTS C13 C13Hist
POSTCONDITION Accepted
CHECK_DEADLOCK FALSE
