SPECIFICATION TSpec
INVARIANTS C13 C13Hist C13Expect C06
POSTCONDITION Accepted
CHECK_DEADLOCK FALSE
