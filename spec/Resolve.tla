------------------------------- MODULE Resolve -------------------------------
(* C13 / C06: variable resolution of a profile file (pkg/aa/resolve.go).          *)
(* Preamble = sequence of items  [k ("cmt"|"abi"|"inc"|"alias"|"var"), id, name,  *)
(*                                define (= vs +=), values]                        *)
(* value    = sequence of parts  [t ("lit"|"ref"), s]                              *)
(* Reference semantics (Subst): every reference is replaced by all combinations    *)
(* of the referenced variable's values - those of its definition and of every +=   *)
(* append, in preamble order; nothing else of the preamble changes; a reference to *)
(* an undefined variable, a value that refers to its own variable, or a second     *)
(* definition is an error.                                                         *)
(* Algorithm model: (1) fold: walk the preamble, fold each += into the definition  *)
(* seen earlier and drop the append entry; (2) substitute the first reference of a *)
(* value by each value of EVERY same-named entry, recursively.  (The pinned code   *)
(* deleted the append entry at its index in the list of VARIABLES instead of the   *)
(* preamble: a comment/include vanished or the call panicked; repaired, see        *)
(* known_findings.json.)                                                           *)
EXTENDS Policy, SequencesExt, FiniteSets

IsVar(it)     == it.k = "var"
VarsOf(pre)   == SelectSeq(pre, IsVar)
Names(pre)    == {pre[i].name : i \in {j \in DOMAIN pre : IsVar(pre[j])}}
DefIdx(pre, n) == {i \in DOMAIN pre : IsVar(pre[i]) /\ pre[i].name = n /\ pre[i].define}
Defined(pre)  == {n \in Names(pre) : DefIdx(pre, n) # {}}
RefsOfValue(v) == {v[i].s : i \in {j \in DOMAIN v : v[j].t = "ref"}}
RefsOfItem(it) == UNION {RefsOfValue(it.values[i]) : i \in DOMAIN it.values}

\* all values of variable n, definition and appends, in preamble order
RECURSIVE ValuesFrom(_, _, _)
ValuesFrom(pre, n, i) == IF i > Len(pre) THEN <<>>
                         ELSE (IF IsVar(pre[i]) /\ pre[i].name = n THEN pre[i].values ELSE <<>>) \o ValuesFrom(pre, n, i + 1)
ValuesOf(pre, n) == ValuesFrom(pre, n, 1)

\* ---- reference outcome
DoubleDef(pre) == \E n \in Names(pre) : Cardinality(DefIdx(pre, n)) > 1
\* an append that precedes the definition of its variable is not part of the contract: not judged
AppendBeforeDef(pre) == \E i \in DOMAIN pre : IsVar(pre[i]) /\ ~pre[i].define /\ (DefIdx(pre, pre[i].name) = {} \/ \A d \in DefIdx(pre, pre[i].name) : d > i)
SelfRef(pre)   == \E i \in DOMAIN pre : IsVar(pre[i]) /\ pre[i].name \in RefsOfItem(pre[i])
RefsUsed(pre, atts) == LET direct == UNION {RefsOfValue(atts[i]) : i \in DOMAIN atts}
                                     \cup UNION {RefsOfItem(pre[i]) : i \in {j \in DOMAIN pre : IsVar(pre[j])}}
                       IN direct
Undefined(pre, atts) == RefsUsed(pre, atts) \ Defined(pre) # {}
RefOutcome(pre, atts) == IF DoubleDef(pre) \/ SelfRef(pre) \/ Undefined(pre, atts) THEN "error" ELSE "ok"

\* ---- reference expansion (only evaluated when RefOutcome = ok and there is no cycle)
RECURSIVE Expand(_, _, _)
Expand(pre, v, fuel) ==
    LET ri == {i \in DOMAIN v : v[i].t = "ref"} IN
    IF ri = {} \/ fuel = 0 THEN {v}
    ELSE LET i == MinOf(ri)
             vals == ValuesOf(pre, v[i].s)
         IN  UNION {Expand(pre, SubSeq(v, 1, i - 1) \o vals[k] \o SubSeq(v, i + 1, Len(v)), fuel - 1) : k \in DOMAIN vals}
RECURSIVE Join(_)
Join(v) == IF v = <<>> THEN "" ELSE v[1].s \o Join(Tail(v))
Strings(pre, v) == {Join(w) : w \in Expand(pre, v, 8)}
StringsOfVar(pre, n) == UNION {Strings(pre, ValuesOf(pre, n)[k]) : k \in DOMAIN ValuesOf(pre, n)}
StringsOfAtts(pre, atts) == UNION {Strings(pre, atts[k]) : k \in DOMAIN atts}
\* acyclic: no variable reaches itself (direct self reference is an error case, longer cycles are out of contract)
RECURSIVE ReachN(_, _, _)
ReachN(pre, S, fuel) == IF fuel = 0 THEN S
                        ELSE ReachN(pre, S \cup UNION {RefsOfItem(pre[i]) : i \in {j \in DOMAIN pre : IsVar(pre[j]) /\ pre[j].name \in S}}, fuel - 1)
Cyclic(pre) == \E n \in Names(pre) : n \in ReachN(pre, UNION {RefsOfItem(pre[i]) : i \in {j \in DOMAIN pre : IsVar(pre[j]) /\ pre[j].name = n}}, 4)

\* what must be left of the preamble: non-variable items untouched and in order, one entry per
\* defined variable at the place of its definition (appends folded in)
NonVars(pre) == SelectSeq(pre, LAMBDA it : ~IsVar(it))
KeptIds(pre) == [i \in DOMAIN NonVars(pre) |-> NonVars(pre)[i].id]

\* ---- algorithm model: the fold
RECURSIVE FoldNew(_, _, _, _)
\* res: preamble built so far; seen: name -> index in res of the definition (0 = none)
FoldNew(pre, i, res, seen) ==
    IF i > Len(pre) THEN [pre |-> res, out |-> "ok"]
    ELSE LET it == pre[i] IN
         IF ~IsVar(it) THEN FoldNew(pre, i + 1, Append(res, it), seen)
         ELSE IF seen[it.name] # 0
              THEN IF it.define THEN [pre |-> res, out |-> "error"]
                   ELSE FoldNew(pre, i + 1, [res EXCEPT ![seen[it.name]].values = @ \o it.values], seen)
              ELSE FoldNew(pre, i + 1, Append(res, it), IF it.define THEN [seen EXCEPT ![it.name] = Len(res) + 1] ELSE seen)
=============================================================================
