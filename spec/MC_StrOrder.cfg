SPECIFICATION Spec
INVARIANT Total
CHECK_DEADLOCK FALSE
