---------------------------- MODULE MC_RuleText ----------------------------
(* Enumerates the rule space of RuleText: for every kind, every vector of field *)
(* choices (built field by field so that TLC's workers share the work), and     *)
(* prints each complete vector (BEH) for the harness to instantiate.            *)
EXTENDS RuleText, Json, IOUtils, TLCExt, RuleSchemaData

VARIABLES kind, vec
MCSchema == RuleSchema
Init == kind \in DOMAIN MCSchema /\ vec = <<>>
Next == /\ Len(vec) < Len(MCSchema[kind])
        /\ \E c \in 0..(MCSchema[kind][Len(vec) + 1].n - 1) : vec' = Append(vec, c)
        /\ UNCHANGED kind
Spec == Init /\ [][Next]_<<kind, vec>>
Emit == Len(vec) = Len(MCSchema[kind]) => PrintT("BEH " \o ToJson([kind |-> kind, vec |-> vec]))
=============================================================================
