SPECIFICATION TSpec
INVARIANTS C04End C04Task
POSTCONDITION Accepted
CHECK_DEADLOCK FALSE
