SPECIFICATION TSpec
INVARIANTS C03File C03Step
POSTCONDITION Accepted
CHECK_DEADLOCK FALSE
