SPECIFICATION TSpec
INVARIANTS C03File C03Step C03Single
POSTCONDITION Accepted
CHECK_DEADLOCK FALSE
