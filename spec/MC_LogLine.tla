----------------------------- MODULE MC_LogLine -----------------------------
(* Bounded exploration of LogLine: every value up to MaxLen characters in one  *)
(* variable field (hex-capable key, or a key the kernel only ever quotes), in  *)
(* the middle of the record or at its end; two variable fields at once; and    *)
(* raw mode (any character sequence after a valid start: malformed lines).     *)
(* Every reached record is checked against the design theorem and handed over  *)
(* as a BEHL line (record + encoded line); LEADL marks records on which the     *)
(* model itself decodes wrongly.                                                *)
EXTENDS LogLine, Json, IOUtils, TLCExt

MaxLen == IF "VERIF_LINE_LEN" \in DOMAIN IOEnv THEN atoi(IOEnv.VERIF_LINE_LEN) ELSE 3
Max2   == IF "VERIF_LINE_LEN2" \in DOMAIN IOEnv THEN atoi(IOEnv.VERIF_LINE_LEN2) ELSE 1
VARIABLES mode, key, v, w
\* info-like values: written between quotes by the kernel, whatever they hold; never a quote or a control byte
QuotedOnly == Chars \ {"q", "t", "l", "G", "pid"}   \* kernel constants and user-space (dbus-daemon) strings: printable, UTF-8 allowed, no pid= inside
Alpha(k) == IF k \in HexKeys THEN Chars ELSE IF k = "raw" THEN Chars \ {"l"} ELSE QuotedOnly   \* (a raw line feed would end the line)
Fix(k, val) == [k |-> k, v |-> val, bare |-> FALSE]
Pid == [k |-> "pid", v |-> <<"N">>, bare |-> TRUE]
Rec == CASE mode = "mid"  -> <<Fix("op", <<"a">>), Fix(key, v), Pid, Fix("mask", <<"a">>), [k |-> "fsuid", v |-> <<"N">>, bare |-> TRUE]>>
         [] mode = "last" -> <<Fix("op", <<"a">>), Pid, Fix("mask", <<"a">>), Fix(key, v)>>
         [] mode = "two"  -> <<Fix("op", <<"a">>), Fix(key, v), Pid, Fix("comm", w), Fix("mask", <<"a">>)>>
         [] OTHER -> <<>>
Line == IF mode = "raw" THEN EncRec(<<Fix("op", <<"a">>)>>) \o <<"s">> \o v ELSE EncRec(Rec)

Init == /\ mode \in {"mid", "last", "two", "raw"}
        /\ key \in (IF mode = "raw" THEN {"raw"} ELSE IF mode = "two" THEN {"name", "profile"} ELSE {"name", "comm", "profile", "info"})
        /\ v = <<>> /\ w = <<>>
Bound == IF mode = "two" THEN Max2 ELSE MaxLen
GrowV == Len(v) < Bound /\ \E c \in Alpha(key) : v' = Append(v, c) /\ UNCHANGED <<mode, key, w>>
GrowW == mode = "two" /\ Len(w) < Max2 /\ \E c \in Chars : w' = Append(w, c) /\ UNCHANGED <<mode, key, v>>
Next == GrowV \/ GrowW
Spec == Init /\ [][Next]_<<mode, key, v, w>>

Emit == /\ PrintT("BEHL " \o ToJson([mode |-> mode, rec |-> Rec, line |-> Line]))
        /\ (mode = "raw" \/ C15Design(Rec) \/ PrintT("LEADL " \o ToJson([mode |-> mode, rec |-> Rec, decoded |-> DecodeLine(Line)])))
\* strict variant: the design theorem as a real invariant
C15 == mode # "raw" => C15Design(Rec)
\* raw mode: decoding is total (TLC evaluating it on every sequence is the proof)
RawTotal == mode = "raw" => DecodeLine(Line) = DecodeLine(Line)
=============================================================================
