-------------------------------- MODULE Ortho --------------------------------
(* C18: two builds of the same tree that differ in exactly one option differ   *)
(* only where that option governs.  A difference is one of                      *)
(*   chg       a line present in both builds with different text (a, b)         *)
(*   add / del a line present in only one of the two builds                     *)
(*   fileonly  a file (or symlink) present in only one of the two builds        *)
(* Lines are abstract items (Builders.tla) or "line" items (hash of the text).  *)
(* The harness annotates each difference with facts read from the SOURCE tree:  *)
(*   guard   the line belongs to a rule/paragraph guarded by an only/exclude    *)
(*           directive whose filters name a value of the switched option        *)
(*   fclass  what the source data says about the file for the switched option:  *)
(*           "overwrite" (on dists/overwrite), "ignore" (hit by an ignore list  *)
(*           of one of the two distributions), "manifest" (in a flags manifest  *)
(*           of one of the two), "ubuntudir" (a file of dists/ubuntu) and       *)
(*           "upstreamed" (on the list of files AppArmor 4.1 ships itself): the  *)
(*           configure step governs them for the pairs of configurations (ca,   *)
(*           cb) on which Policy!CopiesUbuntuDir / DropsUpstreamed differ,       *)
(*           "fsp" (installed by the full-policy prepare step), "fspedit"       *)
(*           (edited by it), "systemd" (drop-in), "" otherwise                  *)
(* Which facts justify which difference is the property, stated here.           *)
EXTENDS Policy

SameBut(a, b, t) == a.t = t /\ b.t = t /\ a.rest = b.rest
Has(e, c) == \E i \in DOMAIN e.fclass : e.fclass[i] = c     \* fclass: sequence of facts

GovMode(e) == e.kind = "chg" /\ SameBut(e.a, e.b, "hdr") /\ e.a.sub = e.b.sub

GovAbi(e) == \/ e.kind = "chg" /\ e.a.t = "abi" /\ e.b.t = "abi"
             \/ e.kind = "chg" /\ SameBut(e.a, e.b, "a4") /\ e.a.k = e.b.k          \* live <-> disabled
             \/ e.kind \in {"add", "del"} /\ e.guard
             \/ e.kind = "fileonly" /\ Has(e, "overwrite")

\* the configure step (prepare/configure.go) acts differently on the two configurations
Configure(e) == \/ Has(e, "ubuntudir") /\ CopiesUbuntuDir(e.ca.dist, e.ca.ver) # CopiesUbuntuDir(e.cb.dist, e.cb.ver)
                \/ Has(e, "upstreamed") /\ DropsUpstreamed(e.ca.ver) # DropsUpstreamed(e.cb.ver)

GovVer(e) == \/ e.kind \in {"add", "del"} /\ e.guard
             \/ Configure(e)

GovDist(e) == \/ e.kind \in {"add", "del"} /\ e.guard
              \/ e.kind = "fileonly" /\ Has(e, "ignore")
              \/ Configure(e)
              \/ e.kind = "chg" /\ Has(e, "manifest") /\ e.a.t \in {"hdr", "decoy"} /\ e.b.t = e.a.t /\ e.a.rest = e.b.rest

GovFull(e) == \/ e.kind = "chg" /\ SameBut(e.a, e.b, "exec") /\ e.a.tgt = e.b.tgt     \* only the transition mode
              \/ Has(e, "fsp") \/ Has(e, "fspedit") \/ Has(e, "systemd")

Governed(e) == CASE e.opt = "mode" -> GovMode(e)
                 [] e.opt = "abi"  -> GovAbi(e)
                 [] e.opt = "ver"  -> GovVer(e)
                 [] e.opt = "dist" -> GovDist(e)
                 [] e.opt = "full" -> GovFull(e)
                 [] OTHER -> FALSE
=============================================================================
