SPECIFICATION TSpec
CONSTANT ScannerLimit = FALSE
INVARIANTS C14Run C14Bulk C15Fields C16Cover
POSTCONDITION Accepted
CHECK_DEADLOCK FALSE
