SPECIFICATION Spec
CONSTANTS
  Ext <- MCExt
  HdrPerLine <- MCHdrPerLine
  CfgUniverse <- MCCfgs
  FileUniverse <- MCFiles
INVARIANTS C17 C05 C18
CHECK_DEADLOCK FALSE
