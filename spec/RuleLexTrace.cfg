SPECIFICATION TSpec
INVARIANTS LexOK
POSTCONDITION Accepted
CHECK_DEADLOCK FALSE
