---------------------------- MODULE PrepareTrace ----------------------------
(* Replays the listing of .build after the real prepare chain (hook events     *)
(* "prepare" with listings, one per task) against Prepare.tla.                  *)
(*   prepared   cfg, source listing, manifests, final listing  (C04 end state)  *)
(*   task       listing before / after one prepare task       (action props)    *)
EXTENDS Prepare, Json, IOUtils

Trace == ndJsonDeserialize(IOEnv.VERIF_TRACE)
VARIABLES l, ev
TInit == l = 1 /\ ev = [ev |-> "init"]
TNext == l <= Len(Trace) /\ l' = l + 1 /\ ev' = Trace[l]
TSpec == TInit /\ [][TNext]_<<l, ev>>

Rep(what, d) == PrintT("VIOL " \o ToJson([p |-> "C04", id |-> ev.id, what |-> what, d |-> d]))
Chk(what, S) == S = {} \/ Rep(what, S)
C04End == ev.ev = "prepared" =>
    /\ Chk("clash", Clashes(ev))
    /\ Chk("missing", Missing(ev))
    /\ Chk("leaked", Leaked(ev))
    /\ Chk("altered", Altered(ev))
    /\ Chk("links", BadLinks(ev))
    /\ (SystemdOK(ev) \/ Rep("systemd", ""))
\* action properties on single tasks: merge moves entries, it never changes or drops content;
\* setflags and overwrite never change the set of content identities (flags masked)
Ids(lst)  == {lst[i].hm : i \in {j \in DOMAIN lst : lst[j].t = "f"}}
C04Task == ev.ev = "task" =>
    /\ (ev.name \in {"merge", "setflags", "overwrite"} => (Ids(ev.before) \subseteq Ids(ev.after) \/ Rep("task " \o ev.name \o " lost content", Ids(ev.before) \ Ids(ev.after))))
    /\ (ev.name = "merge" => (\A i \in DOMAIN ev.after : ev.after[i].segs[1] # "apparmor.d" \/ Len(ev.after[i].segs) < 3 \/ ev.after[i].segs[2] # "groups") \/ Rep("merge left a groups directory", ""))
Accepted == TLCGet("stats").diameter = Len(Trace) + 1
=============================================================================
