------------------------------ MODULE MC_Rules ------------------------------
(* Design check of the Rules.Merge double loop under the assumptions A1/A2, on  *)
(* every list of up to MaxLen rules over a menu built to differ in one thing at  *)
(* a time (value list, second value list, subject, qualifier, kind); and        *)
(* enumeration of the index lists the harness instantiates with real rules.     *)
EXTENDS Rules, Json, IOUtils, TLCExt

VARIABLES input, rs, i, j, pc
vars == <<input, rs, i, j, pc>>
MaxLen == IF "VERIF_RULES_LEN" \in DOMAIN IOEnv THEN atoi(IOEnv.VERIF_RULES_LEN) ELSE 4

Rl(k, q, s, d, mk) == [k |-> k, q |-> q, s |-> s, d |-> d, mergekind |-> mk]
Menu == << Rl("file", "", "/a", <<{"r"}>>, TRUE), Rl("file", "", "/a", <<{"w"}>>, TRUE), Rl("file", "", "/b", <<{"r"}>>, TRUE),
           Rl("file", "deny", "/a", <<{"r"}>>, TRUE), Rl("signal", "", "p", <<{"send"}, {"hup"}>>, TRUE),
           Rl("signal", "", "p", <<{"receive"}, {"hup"}>>, TRUE), Rl("signal", "", "p", <<{"send"}, {"int"}>>, TRUE),
           Rl("signal", "", "p", <<{"receive"}, {"int"}>>, TRUE), Rl("signal", "", "p", <<{"send"}, {}>>, TRUE),
           Rl("cap", "", "", <<{"chown"}>>, FALSE) >>
N == Len(Menu)

Init == input = <<>> /\ rs = <<>> /\ i = 1 /\ j = 2 /\ pc = "build"
Extend == pc = "build" /\ Len(input) < MaxLen /\ \E n \in 1..N : input' = Append(input, n) /\ UNCHANGED <<rs, i, j, pc>>
Start  == pc = "build" /\ input # <<>> /\ rs' = [x \in DOMAIN input |-> Menu[input[x]]] /\ pc' = "loop" /\ UNCHANGED <<input, i, j>>
\* one iteration of the inner loop, as coded
Loop == /\ pc = "loop"
        /\ IF i > Len(rs) THEN pc' = "done" /\ UNCHANGED <<rs, i, j>>
           ELSE IF j > Len(rs) THEN i' = i + 1 /\ j' = i + 2 /\ UNCHANGED <<rs, pc>>
           ELSE IF rs[i].k # rs[j].k THEN j' = j + 1 /\ UNCHANGED <<rs, i, pc>>
           ELSE IF rs[i] = rs[j] THEN rs' = RemoveAt1(rs, j) /\ UNCHANGED <<i, j, pc>>                 \* A1: Compare = 0 iff identical
           ELSE IF Mergeable(rs[i], rs[j]) THEN rs' = RemoveAt1([rs EXCEPT ![i] = Join(rs[i], rs[j])], j) /\ UNCHANGED <<i, j, pc>>
           ELSE j' = j + 1 /\ UNCHANGED <<rs, i, pc>>
        /\ UNCHANGED input
Spec == Init /\ [][Extend \/ Start \/ Loop]_vars

\* under A1/A2 the loop preserves the facts at every step, and ends
InRules   == [x \in DOMAIN input |-> Menu[input[x]]]
FactsKept == pc \in {"loop", "done"} => Facts(rs, ValuesIn(InRules)) = Facts(InRules, ValuesIn(InRules))
Emit == pc = "done" => PrintT("BEH " \o ToJson([input |-> input]))
=============================================================================
