SPECIFICATION Spec
CONSTANT Schema <- MCSchema
INVARIANT Emit
CHECK_DEADLOCK FALSE
