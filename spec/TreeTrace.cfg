SPECIFICATION TSpec
INVARIANTS C19Profile C19Abstraction C19Names C19Flat C08Ref C08Named C01Parse
POSTCONDITION Accepted
CHECK_DEADLOCK FALSE
