------------------------------ MODULE Pipeline ------------------------------
(* The prebuild run as a state machine (pkg/prebuild/cli/cli.go: Prebuild,      *)
(* Prepare, Build), one action per hook event:                                  *)
(*   Chain      the task lists are fixed (prepares, builders)                   *)
(*   Prepare    the next prepare task ran                                       *)
(*   Builder    the next builder of the chain ran on the file under the cursor  *)
(*   Directive  a directive of a file was expanded; a stack / exec directive    *)
(*              READS another file (the profile it names): `reads`              *)
(*   Write      the file under the cursor of the second pass was written        *)
(* TwoPass = TRUE is the repaired design: every file goes through the whole     *)
(* builder chain before any directive is expanded.  TwoPass = FALSE is the      *)
(* pinned design (builders and directives of one file back to back), kept to    *)
(* show at design level what was wrong with it: ReadsBuilt fails as soon as a   *)
(* host stacks a profile that sorts after it.                                   *)
(* Files are processed in listing order (Order: a sequence without repetition). *)
EXTENDS Naturals, Sequences, FiniteSets, TLC

CONSTANTS Prepares,     \* sequence of prepare task names
          Builders,     \* sequence of builder names
          Order,        \* sequence of files, in listing order
          Reads,        \* [file -> set of files its directives read]
          TwoPass

VARIABLES phase,        \* "init" | "prepare" | "build" | "direct" | "done"
          prep,         \* number of prepare tasks done
          cur,          \* cursor into Order (1-based) of the pass under way
          bpos,         \* [file -> number of builders applied]
          expanded,     \* files whose directives were expanded
          written,      \* files written by the second pass
          badread       \* set of <<host, target>>: a directive of host read target before it was fully built
vars == <<phase, prep, cur, bpos, expanded, written, badread>>

Files == {Order[i] : i \in DOMAIN Order}
NB == Len(Builders)
FullyBuilt(f) == bpos[f] = NB

Init == /\ phase = "init" /\ prep = 0 /\ cur = 1
        /\ bpos = [f \in Files |-> 0] /\ expanded = {} /\ written = {} /\ badread = {}

Chain == phase = "init" /\ phase' = "prepare" /\ UNCHANGED <<prep, cur, bpos, expanded, written, badread>>

Prepare == /\ phase = "prepare" /\ prep < Len(Prepares)
           /\ prep' = prep + 1
           /\ UNCHANGED <<phase, cur, bpos, expanded, written, badread>>

\* the next builder of the chain on the file under the cursor
Builder(f) == /\ phase \in {"prepare", "build"} /\ (phase = "prepare" => prep = Len(Prepares))
              /\ cur <= Len(Order) /\ f = Order[cur] /\ bpos[f] < NB
              /\ bpos' = [bpos EXCEPT ![f] = @ + 1]
              /\ phase' = "build"
              /\ UNCHANGED <<prep, cur, expanded, written, badread>>

\* all builders of the file under the cursor are done: the first pass moves on (two-pass design)
NextFile == /\ TwoPass /\ phase = "build" /\ cur <= Len(Order) /\ FullyBuilt(Order[cur])
            /\ cur' = cur + 1
            /\ phase' = IF cur + 1 > Len(Order) THEN "direct" ELSE "build"
            /\ UNCHANGED <<prep, bpos, expanded, written, badread>>
\* second pass starts again at the first file
StartSecond == /\ TwoPass /\ phase = "direct" /\ cur > Len(Order) /\ written = {}
               /\ cur' = 1 /\ UNCHANGED <<phase, prep, bpos, expanded, written, badread>>

\* the directives of the file under the cursor are expanded; they read the files Reads[f] as they are now
Directive(f) == /\ cur <= Len(Order) /\ f = Order[cur] /\ f \notin expanded
                /\ IF TwoPass THEN phase = "direct" ELSE phase = "build" /\ FullyBuilt(f)
                /\ expanded' = expanded \cup {f}
                /\ badread' = badread \cup {<<f, g>> : g \in {h \in Reads[f] : ~FullyBuilt(h)}}
                /\ UNCHANGED <<phase, prep, cur, bpos, written>>

Write(f) == /\ cur <= Len(Order) /\ f = Order[cur] /\ f \in expanded /\ f \notin written
            /\ written' = written \cup {f}
            /\ cur' = cur + 1
            /\ phase' = IF cur + 1 > Len(Order) THEN "done" ELSE phase
            /\ UNCHANGED <<prep, bpos, expanded, badread>>

Next == Chain \/ Prepare \/ NextFile \/ StartSecond \/ \E f \in Files : Builder(f) \/ Directive(f) \/ Write(f)
Spec == Init /\ [][Next]_vars

\* ---- properties of the design
\* whatever a directive pastes in comes from a file that went through every builder (C02, C17, C05 rely on it)
ReadsBuilt == badread = {}
\* a file is written once, after its own builder chain and its directives
WriteAfterBuild == \A f \in written : FullyBuilt(f) /\ f \in expanded
\* the run ends with every file built, expanded and written
Complete == phase = "done" => (\A f \in Files : FullyBuilt(f) /\ f \in written)
=============================================================================
