---------------------------- MODULE LogLineTrace ----------------------------
(* Replays the REAL logs.New on concretised lines of MC_LogLine against LogLine. *)
(*   line  mode, record (abstract fields), the abstract line that was written,  *)
(*         n (events returned), crashed, got (the returned map, abstracted back *)
(*         into characters: pairs <<key chars, value chars>>)                    *)
(* Three-way comparison: the record (what must come out), the model's decoding  *)
(* of the line (what the specification says the stages produce) and the real    *)
(* result.  Only the real result convicts; model /= real is reported as DRIFT.  *)
EXTENDS LogLine, Json, IOUtils

Trace == ndJsonDeserialize(IOEnv.VERIF_TRACE)
VARIABLES l, ev
TInit == l = 1 /\ ev = [ev |-> "init"]
TNext == l <= Len(Trace) /\ l' = l + 1 /\ ev' = Trace[l]
TSpec == TInit /\ [][TNext]_<<l, ev>>
Rep(p, what, d) == PrintT("VIOL " \o ToJson([p |-> p, id |-> ev.id, what |-> what, d |-> d]))
Drift(what, d)  == PrintT("DRIFT " \o ToJson([id |-> ev.id, what |-> what, d |-> d]))

Got == {<<ev.got[i][1], ev.got[i][2]>> : i \in DOMAIN ev.got}
\* (the fixed head of every concretised line, apparmor="DENIED", is left out by the harness)
Real == Got
LineOK == ev.ev = "line" =>
    /\ (~ev.crashed \/ Rep(ev.p, "logs.New panics on a log line", ev.line))
    /\ (ev.crashed \/ ev.n = 1 \/ Rep("C14", "one record in, not exactly one event out", ev.n))
    /\ (ev.crashed \/ ev.n # 1 \/ ev.mode = "raw" \/ Real = Lift(Expected(ev.rec))
          \/ Rep(ev.p, IF ev.p = "C14" THEN "the reported event carries values that are not in the input record" ELSE "the event does not carry the record's own values, faithfully decoded",
                 [want |-> Lift(Expected(ev.rec)) \ Real, got |-> Real \ Lift(Expected(ev.rec))]))
    /\ (ev.crashed \/ ev.n # 1 \/ Real = DecodeLine(ev.line)
          \/ Drift("the model's stages decode the line differently from the real code", [model |-> DecodeLine(ev.line) \ Real, real |-> Real \ DecodeLine(ev.line)]))
\* cli: the same records through the REAL aa-log binary in its default display mode: every value of the
\* record must be on the printed line as it is (missing: the values that are not)
CliOK == ev.ev = "cli" =>
    (ev.missing = <<>> \/ Rep(ev.p, "aa-log prints something else than the record's own value", [missing |-> ev.missing, line |-> ev.shown]))
Accepted == TLCGet("stats").diameter = Len(Trace) + 1
=============================================================================
