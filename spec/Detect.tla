------------------------------- MODULE Detect -------------------------------
(* The part of a build's configuration the tool works out by itself            *)
(* (pkg/prebuild/os.go): with $DISTRIBUTION set that value is the distribution; *)
(* otherwise it comes from the host's os-release: ID, then ID_LIKE (compared as *)
(* ONE string, the way the code does), against the supported distributions and  *)
(* the distributions known to be based on them.                                 *)
(*                                                                              *)
(* The code ranges over a Go map and returns at the first entry that matches:   *)
(* the result is a function of (env, ID, ID_LIKE) exactly when at most one      *)
(* entry matches.  Cands is that set of entries; C02 (same configuration, same  *)
(* output on every run) needs Deterministic for every os-release of the         *)
(* contract; inputs with several candidates are reported as leads.              *)
EXTENDS Naturals, Sequences, FiniteSets, TLC

Supported == [arch |-> {}, debian |-> {}, ubuntu |-> {"neon"},
              opensuse |-> {"suse", "opensuse-tumbleweed"}, whonix |-> {}]
Mains == DOMAIN Supported

RECURSIVE Join(_)
Join(ws) == IF ws = <<>> THEN "" ELSE IF Len(ws) = 1 THEN ws[1] ELSE ws[1] \o " " \o Join(Tail(ws))

\* ID_LIKE is a sequence of words in the model, ONE string for the code
Cands(id, likeWords) ==
    LET like == Join(likeWords) IN
    {m \in Mains : m = id \/ m = like \/ id \in Supported[m] \/ like \in Supported[m]}

Deterministic(id, likeWords) == id = "ubuntu" \/ Cardinality(Cands(id, likeWords)) <= 1

\* the distribution of a run; "" when the input is outside the contract
Dist(env, id, likeWords) ==
    IF env # "" THEN env
    ELSE IF id = "ubuntu" THEN id
    ELSE LET c == Cands(id, likeWords) IN
         IF c = {} THEN id ELSE IF Cardinality(c) = 1 THEN CHOOSE m \in c : TRUE ELSE ""

\* a build only goes through for a supported distribution
Builds(d) == d \in Mains

\* how many supported distributions a word-wise reading of ID_LIKE would relate the host to: the inputs on which
\* an implementation that looks at the words one by one can start to depend on an iteration order
WordCands(id, likeWords) ==
    {m \in Mains : m = id \/ id \in Supported[m] \/ \E i \in DOMAIN likeWords : likeWords[i] = m \/ likeWords[i] \in Supported[m]}
=============================================================================
