SPECIFICATION Spec
INVARIANTS Leads Emit
CHECK_DEADLOCK FALSE
