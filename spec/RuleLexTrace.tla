---------------------------- MODULE RuleLexTrace ----------------------------
(* Replays the REAL printer and parser (aa.File.String, aa.ParseRules) on the   *)
(* rules of MC_RuleLex against RuleLex.                                          *)
(*   lex  rules (abstract), text (what the model prints), rtext (what the real   *)
(*        templates printed, abstracted), crashed / err, got (the parsed rules,  *)
(*        abstracted), text2 (the second print)                                  *)
(* Only the real results convict (C09); model /= real is DRIFT.                  *)
EXTENDS RuleLex, Json, IOUtils

Trace == ndJsonDeserialize(IOEnv.VERIF_TRACE)
VARIABLES l, ev
TInit == l = 1 /\ ev = [ev |-> "init"]
TNext == l <= Len(Trace) /\ l' = l + 1 /\ ev' = Trace[l]
TSpec == TInit /\ [][TNext]_<<l, ev>>
Rep(what, d)   == PrintT("VIOL " \o ToJson([p |-> "C09", id |-> ev.id, what |-> what, d |-> d]))
Drift(what, d) == PrintT("DRIFT " \o ToJson([id |-> ev.id, what |-> what, d |-> d]))

WantAll == [i \in DOMAIN ev.rules |-> Want(ev.rules[i])]
LexOK == ev.ev = "lex" =>
    /\ (ev.rtext = PrintBlock(ev.rules) \/ Drift("the templates print the rule differently from the model", [model |-> PrintBlock(ev.rules), real |-> ev.rtext]))
    /\ (~ev.crashed \/ Rep("the parser crashes on text the library printed", ev.err))
    /\ (ev.crashed \/ ev.err = "" \/ Rep("the parser rejects text the library printed", ev.err))
    /\ (ev.crashed \/ ev.err # "" \/ ev.got = WantAll
          \/ Rep("parsing the printed text does not give the same rules back", [want |-> WantAll, got |-> ev.got]))
    /\ (ev.crashed \/ ev.err # "" \/ ev.text2 = ev.rtext \/ Rep("printing the parsed rules does not reproduce the text", [first |-> ev.rtext, second |-> ev.text2]))
    /\ (ev.crashed \/ ev.err # "" \/ ev.got = ParseText(ev.rtext)
          \/ Drift("the model's stages parse the text differently from the real code", [model |-> ParseText(ev.rtext), real |-> ev.got]))
Accepted == TLCGet("stats").diameter = Len(Trace) + 1
=============================================================================
