------------------------------- MODULE Policy -------------------------------
(* Data model shared by every specification of the apparmor.d tooling:       *)
(* build configurations, the distribution -> package family table, the exec  *)
(* transition lattice, and small helpers over sequences / sets.              *)
EXTENDS Naturals, Sequences, FiniteSets, TLC

Dists  == {"arch", "debian", "ubuntu", "opensuse", "whonix"}
Vers   == {"3.0", "4.0", "4.1"}
BModes == {"none", "complain", "enforce"}

FamilyOf(d) == CASE d = "arch"     -> "pacman"
                 [] d = "opensuse" -> "zypper"
                 [] OTHER          -> "apt"

\* A build configuration as the command line states it.
Cfgs == [dist : Dists, abi : {3, 4}, ver : Vers, mode : BModes, full : BOOLEAN]

AbiTag(c) == IF c.abi = 3 THEN "abi3" ELSE "abi4"
VerTag(c) == "apparmor" \o c.ver

\* filterRuleForUs: a filter list names the target iff it contains the ABI tag,
\* the version tag, the distribution or its package family.
ForUs(filters, c) == \/ AbiTag(c) \in filters
                     \/ VerTag(c) \in filters
                     \/ c.dist \in filters
                     \/ FamilyOf(c.dist) \in filters

\* The configure step of the prepare stage (pkg/prebuild/prepare/configure.go): the abstractions of
\* dists/ubuntu are copied for targets older than the release that ships them (Ubuntu: AppArmor 3.0,
\* Debian and Whonix: AppArmor 4.1); the files upstreamed in AppArmor 4.1 are removed for 4.1 targets.
VerNum(v) == CASE v = "3.0" -> 30 [] v = "4.0" -> 40 [] OTHER -> 41
CopiesUbuntuDir(d, v) == (d = "ubuntu" /\ VerNum(v) < 30) \/ (d \in {"debian", "whonix"} /\ VerNum(v) < 41)
DropsUpstreamed(v)    == VerNum(v) >= 41

\* Exec transition modes (pkg/aa requirements[FILE]["transition"]).
ExecModes == {"ix", "ux", "Ux", "px", "Px", "cx", "Cx", "pix", "Pix", "cix", "Cix",
              "pux", "PUx", "cux", "CUx", "x"}

\* A mode that lets the target run unconfined (directly or as a fallback).
Unconf(m) == m \in {"ux", "Ux", "pux", "PUx", "cux", "CUx"}

\* ---- helpers
SeqToSet(s) == {s[i] : i \in DOMAIN s}
Max2(a, b) == IF a > b THEN a ELSE b
Min2(a, b) == IF a < b THEN a ELSE b
MinOf(S)   == CHOOSE x \in S : \A y \in S : x <= y
IsStr(x)   == x \in STRING

\* Number of configurations differing (Hamming distance) - used by the orthogonality spec.
Hamming(c1, c2) == (IF c1.dist # c2.dist THEN 1 ELSE 0)
                 + (IF c1.abi  # c2.abi  THEN 1 ELSE 0)
                 + (IF c1.ver  # c2.ver  THEN 1 ELSE 0)
                 + (IF c1.mode # c2.mode THEN 1 ELSE 0)
                 + (IF c1.full # c2.full THEN 1 ELSE 0)
=============================================================================
