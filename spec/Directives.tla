------------------------------ MODULE Directives ------------------------------
(* The directive stage of prebuild (second pass of cli.Build):                    *)
(*    for f in sorted(files) : text := read f ; ds := scan text for "#aa:" ONCE ; *)
(*        for d in ds : text := Directive[d].Apply(text)  -- dbus, exec, stack    *)
(*        write f        -- exec / stack READ OTHER FILES of the build directory   *)
(* C07: what each generating directive must expand to, and that none survives.    *)
(* C02: the text written for a file is a function of that file, the files it      *)
(*      names and the configuration - not of the history of the process.          *)
EXTENDS Policy, SequencesExt, FiniteSets

\* ---------------------------------------------------------------- dbus
\* directive  [action, bus, name, path ("" = default), ifaces (given interface / interface+), label]
\* rule       [access (sequence), bus, path, iface, member, bind (name= of a bind rule), peername, peerlabel]
Suffixed(n)  == n \o "{,.*}"
Has(r, a)    == \E i \in DOMAIN r.access : r.access[i] = a
IfacesOf(d)  == IF d.ifaces = <<>> THEN {Suffixed(d.name)} ELSE SeqToSet(d.ifaces)
PathOf(d)    == IF d.path = "" THEN d.defpath ELSE d.path           \* defpath: "/" + name with dots as slashes + "{,/**}"
DbusOK(d, rs) ==
    /\ rs # <<>>
    /\ \A i \in DOMAIN rs : rs[i].bus = d.bus                                        \* on the named bus only
    /\ d.action = "own" =>
          /\ \E i \in DOMAIN rs : Has(rs[i], "bind") /\ rs[i].bind = Suffixed(d.name)
          /\ \A f \in IfacesOf(d) :
                /\ \E i \in DOMAIN rs : Has(rs[i], "send")    /\ rs[i].iface = f /\ rs[i].path = PathOf(d)
                /\ \E i \in DOMAIN rs : Has(rs[i], "receive") /\ rs[i].iface = f /\ rs[i].path = PathOf(d)
    /\ d.action \in {"talk", "common"} =>
          /\ \A i \in DOMAIN rs : rs[i].peerlabel = d.label /\ rs[i].peerhasname /\ ~Has(rs[i], "bind")
          /\ \A i \in DOMAIN rs : rs[i].path = PathOf(d)
    /\ d.action = "talk" =>
          \A f \in IfacesOf(d) : \E i \in DOMAIN rs : Has(rs[i], "send") /\ Has(rs[i], "receive") /\ rs[i].iface = f

\* ---------------------------------------------------------------- exec
\* directive [trans (requested transition, default "Px"), targets (sequence of [name, nexec (number of executables
\* its @{exec_path} lists)])] ; rules [mode, acc, tgt (has "-> x")]
RECURSIVE SumN(_, _)
SumN(ts, i) == IF i > Len(ts) THEN 0 ELSE ts[i].nexec + SumN(ts, i + 1)
ExecOK(d, rs) == /\ Len(rs) = SumN(d.targets, 1)                                 \* one rule per executable of each profile
                 /\ \A i \in DOMAIN rs : rs[i].mode = d.trans /\ rs[i].acc = "" /\ ~rs[i].tgt

\* ---------------------------------------------------------------- stack
\* lines are [key, cls] with cls in {"rule", "x" (exec transition rule), "base" (include <abstractions/base>),
\* "entry" (mentions @{exec_path}), "local" (include if exists <local/..>), "cmt", "hdr", "close"}
Body(t)      == SelectSeq(t, LAMBDA ln : ln.cls \notin {"hdr", "close"})
Stacked(t, x) == SelectSeq(Body(t), LAMBDA ln : ln.cls \notin {"base", "entry"} /\ (x \/ ln.cls # "x"))
RECURSIVE Concat(_, _, _)
Concat(ts, x, i) == IF i > Len(ts) THEN <<>> ELSE Stacked(ts[i], x) \o Concat(ts, x, i + 1)
Keys(s)      == [i \in DOMAIN s |-> s[i].key]
\* d = [x, names, raw (the directive line itself)]
\* host after = host before (minus the directive line) with the stacked rules inserted, in the order given
StackOK(d, before, after, targets) ==
    LET ins  == Keys(Concat(targets, d.x, 1))
        hb   == Keys(SelectSeq(before, LAMBDA ln : ~(ln.cls = "dir" /\ ln.key = d.raw) /\ ln.cls # "stackmark"))     \* other directives of the host stay
        ha   == Keys(SelectSeq(after, LAMBDA ln : ln.cls # "stackmark"))
        hbL  == SelectSeq(before, LAMBDA ln : ~(ln.cls = "dir" /\ ln.key = d.raw) /\ ln.cls # "stackmark")
        \* the stacked rules belong to the host profile itself, not to one of its sub-profiles: at the insertion
        \* point exactly one block (the host's) is open
        Depth(k) == Cardinality({i \in 1..k : hbL[i].cls = "hdr"}) - Cardinality({i \in 1..k : hbL[i].cls = "close"})
    IN  \E k \in 0..Len(hb) : ha = SubSeq(hb, 1, k) \o ins \o SubSeq(hb, k + 1, Len(hb)) /\ (ins = <<>> \/ Depth(k) = 1)

\* ---------------------------------------------------------------- C02
\* the output of a file in the whole build equals its output in a build that contains only the
\* file and the profiles it names (same configuration); and two runs give the same bytes
SameBytes(a, b) == a = b
=============================================================================
