SPECIFICATION TSpec
INVARIANTS C07Dbus C07Exec C07Stack C07Left C02Same
POSTCONDITION Accepted
CHECK_DEADLOCK FALSE
