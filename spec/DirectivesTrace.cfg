SPECIFICATION TSpec
INVARIANTS C07Dbus C07Exec C07Stack C07Left C02Same C05Blocks
POSTCONDITION Accepted
CHECK_DEADLOCK FALSE
