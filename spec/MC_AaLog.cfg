SPECIFICATION Spec
CONSTANT ScannerLimit <- MCScannerLimit
INVARIANTS Leads Emit
CHECK_DEADLOCK FALSE
