-------------------------------- MODULE Filter --------------------------------
(* C03: the only / exclude directives (pkg/prebuild/directive/filter.go).        *)
(* Text is a sequence of lines                                                    *)
(*   k    "line" (anything unguarded) | "inl" (rule with an inline marker)        *)
(*        | "open" (a marker alone on its line: opens a paragraph) | "blank"      *)
(*        | "close" (a closing brace) | "bopen" (a line that opens a block)       *)
(*   key  the text without the marker (whitespace-insensitive identity)           *)
(*   dk   "only" | "exclude" | ""      fs   filters (sequence)    ind  indentation *)
(* Reference semantics (the property): a guarded rule / paragraph (the opener up  *)
(* to the next blank line) is kept iff (dk = only) <=> ForUs(fs, cfg); the marker *)
(* never survives; every other line is carried through unchanged, in order.       *)
(* Algorithm model (as coded): the directive list is scanned ONCE on the original *)
(* text; each match is applied to the current text by literal replacement of its  *)
(* raw line: "keep" strips the marker of the FIRST occurrence, "remove" deletes   *)
(* ALL occurrences - where an occurrence is any line that CONTAINS the raw text,  *)
(* i.e. the same directive at the same or a deeper indentation.                   *)
EXTENDS Policy, SequencesExt, FiniteSets

Marked(ln)   == ln.k \in {"inl", "open"}
Same(ln, d)  == ln.k = d.k /\ ln.dk = d.dk /\ ln.fs = d.fs /\ ln.key = d.key
Occ(ln, d)   == Same(ln, d) /\ ln.ind >= d.ind              \* literal substring match
NonBlank(s)  == SelectSeq(s, LAMBDA x : x.k # "blank")
Strip(ln)    == [ln EXCEPT !.k = "line", !.dk = "", !.fs = <<>>, !.ind = 0]   \* indentation only matters on marker lines
KeepIt(d, c) == (d.dk = "only") = ForUs(SeqToSet(d.fs), c)

Blanks(s, i) == {j \in (i + 1)..Len(s) : s[j].k = "blank"}
ParaEnd(s, i) == IF Blanks(s, i) = {} THEN Len(s) ELSE MinOf(Blanks(s, i))
\* input contract: a paragraph ends at a blank line before the block closes
\* (and holds at least one line: the removal pattern is raw \n body \n\n)
\* a closing brace inside the paragraph must close a block opened inside it ("bopen": a line ending with "{")
Balanced(s, i, j) == Cardinality({k \in i..j : s[k].k = "close"}) <= Cardinality({k \in i..j : s[k].k = "bopen"})
Terminated(s, i) == Blanks(s, i) # {} /\ ParaEnd(s, i) > i + 1 /\ \A j \in i..ParaEnd(s, i) : Balanced(s, i, j)

Drop(s, D) == LET keep == {i \in DOMAIN s : i \notin D}
                  F[n \in 0..Len(s)] == IF n = 0 THEN <<>> ELSE IF n \in keep THEN Append(F[n - 1], s[n]) ELSE F[n - 1]
              IN  F[Len(s)]
OccIdx(s, d) == {i \in DOMAIN s : Occ(s[i], d)}
RemovedIdx(s, d) == IF d.k = "inl" THEN OccIdx(s, d)
                    ELSE UNION {i..ParaEnd(s, i) : i \in OccIdx(s, d)}

\* ---- one application of directive d to text s (reference, per step)
ExpRemove(s, d)  == Drop(s, RemovedIdx(s, d))
ExpKeep(s, d, i) == IF d.k = "inl" THEN [s EXCEPT ![i] = Strip(s[i])] ELSE Drop(s, {i})
StepOK(before, after, d, c) ==
    IF OccIdx(before, d) = {} THEN NonBlank(after) = NonBlank(before)
    ELSE IF KeepIt(d, c) THEN \E i \in OccIdx(before, d) : NonBlank(after) = NonBlank(ExpKeep(before, d, i))
    ELSE NonBlank(after) = NonBlank(ExpRemove(before, d))
InContract(before, d) == d.k = "open" => \A i \in OccIdx(before, d) : Terminated(before, i)

\* ---- whole file (reference): what must be left once every filter directive ran
RECURSIVE FileRef(_, _, _)
FileRef(s, c, i) ==
    IF i > Len(s) THEN <<>>
    ELSE IF s[i].k = "inl" THEN (IF KeepIt(s[i], c) THEN <<Strip(s[i])>> ELSE <<>>) \o FileRef(s, c, i + 1)
    ELSE IF s[i].k = "open" THEN
         \* kept: only the opener goes, the body is read on (it may hold guarded rules of its own); dropped: all of it
         (IF KeepIt(s[i], c) THEN FileRef(s, c, i + 1) ELSE FileRef(s, c, ParaEnd(s, i) + 1))
    ELSE <<s[i]>> \o FileRef(s, c, i + 1)
FileOK(src, out, c) == NonBlank(out) = NonBlank(FileRef(src, c, 1))
\* a guarded paragraph may hold inline-guarded rules; an opener inside a paragraph is not part of the contract
\* ... and an inline-guarded rule inside a paragraph is not written a second time elsewhere in the file (removing
\* the other copy blanks this one too and cuts the paragraph short: reported as a lead, not judged)
FileInContract(s) == \A i \in DOMAIN s : s[i].k = "open" =>
                        /\ Terminated(s, i)
                        /\ \A j \in (i + 1)..ParaEnd(s, i) : s[j].k # "open" /\ (s[j].k = "inl" => \A k \in DOMAIN s \ {j} : ~Same(s[k], s[j]))

\* ---- algorithm model: Run = scan once, apply in order to the CURRENT text
Dirs(s) == SelectSeq(s, Marked)
AlgoStep(s, d, c) ==
    IF OccIdx(s, d) = {} THEN s
    ELSE IF KeepIt(d, c) THEN ExpKeep(s, d, MinOf(OccIdx(s, d)))
    ELSE ExpRemove(s, d)
RECURSIVE AlgoFrom(_, _, _, _)
AlgoFrom(s, ds, k, c) == IF k > Len(ds) THEN s ELSE AlgoFrom(AlgoStep(s, ds[k], c), ds, k + 1, c)
Algo(s, c) == AlgoFrom(s, Dirs(s), 1, c)
=============================================================================
