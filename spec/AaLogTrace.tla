----------------------------- MODULE AaLogTrace -----------------------------
(* Replays runs of the REAL aa-log binary (and of logs.New) against AaLog.tla.    *)
(*   run    one invocation: mode, filter, abstract input, ids of the reported     *)
(*          records in output order (recovered from markers), exit status         *)
(*   fields one record through logs.New: the fields put in, the map got out (C15) *)
(*   cover  one record through aa-log --rules: does an emitted rule of the right  *)
(*          kind / qualifier cover the access (C16)                               *)
EXTENDS AaLog, Json, IOUtils

Trace == ndJsonDeserialize(IOEnv.VERIF_TRACE)
VARIABLES l, ev
TInit == l = 1 /\ ev = [ev |-> "init"] /\ input = <<>> /\ filter = <<>> /\ pos = 0 /\ stopped = FALSE /\ kept = <<>>
TNext == l <= Len(Trace) /\ l' = l + 1 /\ ev' = Trace[l] /\ UNCHANGED avars
TSpec == TInit /\ [][TNext]_<<l, ev, input, filter, pos, stopped, kept>>

Rep(p, what, d) == PrintT("VIOL " \o ToJson([p |-> p, id |-> ev.id, what |-> what, d |-> d]))
C14Run == ev.ev = "run" =>
    /\ (ev.exit = 0 \/ Rep("C14", "aa-log failed (non-zero exit / crash) on an input it must get through", ev.exit))
    /\ (ev.exit # 0 \/ (IF ev.mode = "rules" THEN SeqToSet(ev.output) = SeqToSet(Reported(ev.input, ev.filter))  \* rules are sorted, not in input order
                                                     ELSE ev.output = Reported(ev.input, ev.filter))
          \/ Rep("C14", "reported records are not exactly the matching records, once each, in input order", [want |-> Reported(ev.input, ev.filter), got |-> ev.output]))
    /\ (ev.stable \/ Rep("C14", "two runs on the same input print different output", ""))
    /\ (ev.garbled = <<>> \/ Rep("C14", "a reported line does not carry the record's own text (something that is not in the input is printed)", ev.garbled))
\* bulk: a log of thousands of distinct records with a few repeats far apart (the model's Reported over such a
\* sequence is not evaluated line by line: the harness counts, the invariant states what the counts must be)
C14Bulk == ev.ev = "bulk" =>
    /\ (ev.exit = 0 \/ Rep("C14", "aa-log failed (non-zero exit / crash) on an input it must get through", ev.exit))
    /\ ((ev.shown = ev.distinct /\ ev.repeatedshown = 1 /\ ev.inorder)
          \/ Rep("C14", "reported records are not exactly the matching records, once each, in input order", [distinct |-> ev.distinct, shown |-> ev.shown, timesRepeatedShown |-> ev.repeatedshown, inorder |-> ev.inorder]))

\* C15: the map of a record holds the record's own values; only profile / name / target may be
\* rewritten, and only by a generalisation that still covers the original (fact established by the
\* AARE matcher over the shipped tunables); nothing the record does not have appears
PutKeys == {ev.put[i][1] : i \in DOMAIN ev.put}
GotKeys == {ev.got[i][1] : i \in DOMAIN ev.got}
PutVal(k) == ev.put[CHOOSE i \in DOMAIN ev.put : ev.put[i][1] = k][2]
GotVal(k) == ev.got[CHOOSE i \in DOMAIN ev.got : ev.got[i][1] = k][2]
Generalisable == {"profile", "name", "target"}
CoveredKeys == {ev.covered[i] : i \in DOMAIN ev.covered}
Lost  == PutKeys \ GotKeys
Wrong == {k \in PutKeys \cap GotKeys : GotVal(k) # PutVal(k) /\ ~(k \in Generalisable /\ k \in CoveredKeys)}
Extra == GotKeys \ PutKeys
C15Fields == ev.ev = "fields" =>
    /\ (Lost = {}  \/ Rep("C15", "a field of the record is missing from the event", Lost))
    /\ (Wrong = {} \/ Rep("C15", "a field value is not the record's own, faithfully decoded value", [k \in Wrong |-> [want |-> PutVal(k), got |-> GotVal(k)]]))
    /\ (Extra = {} \/ Rep("C15", "the event carries a field the record does not have (bleeding between fields or records)", Extra))

\* C16: under the record's profile there is a rule of the right kind and qualifier that covers the access.
\* requested mask -> access the rule must grant (a, c, d are write accesses; x needs an exec mode)
Need(m) == CASE m = "a" -> "w" [] m = "c" -> "w" [] m = "d" -> "w" [] OTHER -> m
MaskOK(mask, acc) == \A i \in DOMAIN mask : IF mask[i] = "x" THEN \E j \in DOMAIN acc : acc[j] \in {"x", "ix", "px", "Px", "ux", "Ux", "cx", "Cx", "pix", "Pix", "cix", "Cix", "pux", "PUx", "cux", "CUx"}
                                              ELSE \E j \in DOMAIN acc : acc[j] = Need(mask[i])
FileRuleOK(w, r) == r.kind = w.kind /\ r.qual = w.qual /\ r.covers /\ (w.kind = "link" \/ MaskOK(w.mask, r.access)) /\ (r.owner => w.ownereligible)
OtherRuleOK(w, r) == r.kind = w.kind /\ r.qual = w.qual /\ \A i \in DOMAIN w.tokens : \E j \in DOMAIN r.tokens : r.tokens[j] = w.tokens[i]
C16Cover == ev.ev = "cover" =>
    /\ ((\E i \in DOMAIN ev.rules : ev.rules[i].kind = ev.want.kind /\ ev.rules[i].qual = ev.want.qual)
          \/ Rep("C16", "no rule of the right kind and qualifier is emitted under the record's profile", ev.want))
    /\ ((\E i \in DOMAIN ev.rules : IF ev.want.kind \in {"file", "link"} THEN FileRuleOK(ev.want, ev.rules[i]) ELSE OtherRuleOK(ev.want, ev.rules[i]))
          \/ ~(\E i \in DOMAIN ev.rules : ev.rules[i].kind = ev.want.kind /\ ev.rules[i].qual = ev.want.qual)
          \/ Rep("C16", "no emitted rule covers the recorded access", [want |-> ev.want, rules |-> ev.rules]))
Accepted == TLCGet("stats").diameter = Len(Trace) + 1
=============================================================================
