----------------------------- MODULE AaLogTrace -----------------------------
(* Replays runs of the REAL aa-log binary (and of logs.New) against AaLog.tla.    *)
(*   run    one invocation: mode, filter, abstract input, ids of the reported     *)
(*          records in output order (recovered from markers), exit status         *)
(*   fields one record through logs.New: the fields put in, the map got out (C15) *)
(*   cover  one record through aa-log --rules: does an emitted rule of the right  *)
(*          kind / qualifier cover the access (C16)                               *)
EXTENDS AaLog, Json, IOUtils

Trace == ndJsonDeserialize(IOEnv.VERIF_TRACE)
VARIABLES l, ev
TInit == l = 1 /\ ev = [ev |-> "init"] /\ input = <<>> /\ filter = <<>> /\ pos = 0 /\ stopped = FALSE /\ kept = <<>>
TNext == l <= Len(Trace) /\ l' = l + 1 /\ ev' = Trace[l] /\ UNCHANGED avars
TSpec == TInit /\ [][TNext]_<<l, ev, input, filter, pos, stopped, kept>>

Rep(p, what, d) == PrintT("VIOL " \o ToJson([p |-> p, id |-> ev.id, what |-> what, d |-> d]))
C14Run == ev.ev = "run" =>
    /\ (ev.exit = 0 \/ Rep("C14", "aa-log failed (non-zero exit / crash) on an input it must get through", ev.exit))
    /\ (ev.exit # 0 \/ (IF ev.mode = "rules" THEN SeqToSet(ev.output) = SeqToSet(Reported(ev.input, ev.filter))  \* rules are sorted, not in input order
                                                     ELSE ev.output = Reported(ev.input, ev.filter))
          \/ Rep("C14", "reported records are not exactly the matching records, once each, in input order", [want |-> Reported(ev.input, ev.filter), got |-> ev.output]))
    /\ (ev.stable \/ Rep("C14", "two runs on the same input print different output", ""))

\* C15: the map of a record holds the record's own values; only profile / name / target may be
\* rewritten (generalised); nothing of another record appears
C15Fields == ev.ev = "fields" =>
    /\ (ev.lost = <<>>  \/ Rep("C15", "a field of the record is missing from the event", ev.lost))
    /\ (ev.wrong = <<>> \/ Rep("C15", "a field value is not the record's own, faithfully decoded value", ev.wrong))
    /\ (ev.extra = <<>> \/ Rep("C15", "the event carries a field the record does not have (bleeding between fields or records)", ev.extra))

\* C16: under the record's profile there is a rule of the right kind and qualifier that covers the access
C16Cover == ev.ev = "cover" =>
    /\ (ev.haskind   \/ Rep("C16", "no rule of the right kind and qualifier is emitted under the record's profile", ev.want))
    /\ (~ev.haskind \/ ev.covered \/ Rep("C16", "no emitted rule covers the recorded access", [want |-> ev.want, rules |-> ev.rules]))
    /\ (~ev.haskind \/ ev.ownerok \/ Rep("C16", "owner is set although fsuid differs from ouid (or the reverse)", ev.want))
Accepted == TLCGet("stats").diameter = Len(Trace) + 1
=============================================================================
