--------------------------- MODULE PipelineTrace ---------------------------
(* Validates the hook events of a REAL prebuild run against Pipeline.tla: the   *)
(* recorded sequence chain, prepare*, builder*, directive*, write* must be a    *)
(* behaviour of the two-pass specification.  The constants come from the run    *)
(* itself (PipelineData: the registered chains, the listing order seen in the   *)
(* first pass, the profiles each file's stack / exec directives name).          *)
(* Silent steps of the specification (the cursor moving to the next file, the   *)
(* second pass starting over, the directive step of a file without directives)  *)
(* are composed with the logged step.  A directive event of a file that is not  *)
(* under the cursor is the nested expansion of a stacked profile: a stuttering  *)
(* step, allowed only once every file is built.                                 *)
EXTENDS Pipeline, PipelineData, Json, IOUtils

Trace == ndJsonDeserialize(IOEnv.VERIF_TRACE)
VARIABLE l
tvars == <<vars, l>>

ReadsOf(f) == IF f \in DOMAIN PipelineMeta.reads THEN {PipelineMeta.reads[f][i] : i \in DOMAIN PipelineMeta.reads[f]} ELSE {}
TPrepares == PipelineMeta.prepares
TBuilders == PipelineMeta.builders
TOrder    == PipelineMeta.order
TReads    == [f \in {TOrder[i] : i \in DOMAIN TOrder} |-> ReadsOf(f) \cap {TOrder[i] : i \in DOMAIN TOrder}]

TInit == Init /\ l = 1
Ev == Trace[l]
Step(A) == l <= Len(Trace) /\ l' = l + 1 /\ A
OnChain     == Ev.ev = "chain" /\ Chain
OnPrepare   == Ev.ev = "prepare" /\ Prepare /\ Prepares[prep + 1] = Ev.name
OnBuilder   == Ev.ev = "builder" /\ (Builder(Ev.file) \/ (NextFile \cdot Builder(Ev.file))) /\ Builders[bpos[Ev.file] + 1] = Ev.name
\* the silent steps that may precede an event of the second pass
Advance     == (NextFile \cdot StartSecond) \/ StartSecond
OnDirective == Ev.ev = "directive" /\
                 \/ Directive(Ev.file)                                       \* first directive of the file under the cursor
                 \/ (Advance \cdot Directive(Ev.file))
                 \/ (phase = "direct" /\ cur <= Len(Order) /\ (Ev.file \in expanded \/ Ev.file # Order[cur]) /\ UNCHANGED vars)   \* further / nested directive
OnWrite     == Ev.ev = "write" /\
                 \/ Write(Ev.file)
                 \/ (Directive(Ev.file) \cdot Write(Ev.file))                \* a file without directives
                 \/ ((Advance \cdot Directive(Ev.file)) \cdot Write(Ev.file))
TNext == Step(OnChain) \/ Step(OnPrepare) \/ Step(OnBuilder) \/ Step(OnDirective) \/ Step(OnWrite)
TSpec == TInit /\ [][TNext]_tvars

\* every event is one step (silent steps are composed with it): the whole trace was explained iff
\* the search went Len(Trace) steps deep
Accepted == TLCGet("stats").diameter = Len(Trace) + 1
=============================================================================
